#!/usr/bin/env python3
"""Driver of the deterministic-simulation checks.

  check.py <property> [--tier quick|thorough] [--runs N] [--workers N] [--repo DIR]
  check.py <property> --replay FILE
  check.py selftest-determinism [--props C01,C07,...]

Builds gwbsim from the repository's current working tree (hooks on), runs
seeded scenarios in long-lived worker processes, classifies violations,
minimises them, gates them (same scenario twice in one process + replay in a
fresh process), matches them against known_findings.json, writes
evidence/<id>.json.  Exit 0: property held on everything explored (KNOWN-FINDING
lines are allowed); exit 1: VIOLATION line(s); exit 2: the machinery itself
misbehaved (build failure, nondeterminism)."""
import argparse, collections, copy, hashlib, json, os, random, re, subprocess, sys, time, threading, queue

VERIF = os.path.dirname(os.path.abspath(__file__))
sys.path.insert(0, VERIF)
import build as B  # noqa: E402

NCPU = os.cpu_count() or 4

# property -> configuration.  parts: list of (flavour, fraction of the run budget re-run in that flavour)
COLD_BASE = 10000000   # run indices of cold-start scenarios (one fresh process each)

CONFIG = {
    "C01": dict(history=(200, 3000), parts=[("plain", 1.0), ("asan", 0.15), ("vg", 0.02)], quick=2400, thorough=40000, chunk=40, timeout=120,
                rule="one run = a seeded history of 15-200 operations (create/destroy/2D+3D batched and single-entry queries/size/distance, "
                     "failing requests, allocation faults) over 1-4 live worlds built from corpus and generated files; every response is "
                     "compared bit for bit with stand-alone single-property answers of fresh worlds. Non-trivial = at least one oracle "
                     "comparison was made; distinct = distinct event-log hash (responses of all operations)."),
    "C07": dict(history=(150, 2000), parts=[("plain", 1.0), ("asan", 0.1)], quick=1200, thorough=20000, chunk=20, timeout=180,
                rule="one run = twin worlds of one generated file (slabs/faults incl. curved, high-latitude and dateline-crossing trenches; "
                     "area features with depth surfaces), one with the shipped shortcuts, one with a seeded subset of shortcut sites S1-S8 "
                     "disabled, asked the same placed/adaptive/uniform points. Non-trivial = at least one point was inside a feature "
                     "according to the un-culled world; distinct = distinct event-log hash."),
    "C12": dict(parts=[("asan", 1.0), ("vg", 0.02), ("tsan", 0.1)], quick=2400, thorough=60000, chunk=40, timeout=120, cold=("tsan", 48, 1200),
                rule="one run = construct a world from a corpus/generated document after 0-3 structural mutations and under a seeded "
                     "file-layer fault plan (truncation, corruption, short reads, EINTR, EIO, open failure, change between opens) or an "
                     "allocation fault; then probe queries; then construction from the intact file. Non-trivial = a mutation or a fault "
                     "actually applied/fired; distinct = distinct event-log hash."),
    "C14": dict(parts=[("tsan", 1.0), ("asan", 0.2)], quick=1400, thorough=24000, chunk=20, timeout=180,
                rule="one run = (A) 2-32 sim threads with their own query streams against 1-3 shared worlds, or (B) gwb-grid in-process with "
                     "-j 1..40, every switch decided by the seeded scheduler at thread spawn/join/exit, operation boundaries and the yield "
                     "points inside World::properties. Oracles: answers == sequential reference, TSan reports == 0, output bytes == -j 1 bytes. "
                     "Non-trivial = more than one task was runnable at some decision point; distinct = distinct decision-trace hash."),
    "C15": dict(history=(150, 2000), parts=[("plain", 1.0), ("asan", 0.15), ("tsan", 0.1)], quick=1600, thorough=30000, chunk=40, timeout=120,
                rule="one run = twins (same file, same seed) and a sibling (other seed) of a generated world with random grain / random "
                     "composition models, same query sequence interleaved differently with unrelated worlds; oracles: twin equality, "
                     "mt19937 engine model (state after every op), rotation/size/bounds validity. Non-trivial = at least one random draw "
                     "happened; distinct = distinct event-log hash."),
    "C16": dict(history=(60, 600), parts=[("asan", 1.0), ("tsan", 0.2)], quick=700, thorough=12000, chunk=20, timeout=180,
                rule="one run = native/C/C++-wrapper twins created with the same arguments (file, output-dir flag and path, seed) and asked "
                     "the same operations; oracles: bit-identical responses, identical file effect traces of the creations, same failures. "
                     "Non-trivial = at least one wrapper response was compared; distinct = distinct event-log hash."),
    "C17": dict(parts=[("asan", 1.0)], quick=900, thorough=16000, chunk=20, timeout=180,
                rule="one run = gwb-dat's main() in-process on the simulated file layer with a generated data file (dim, compositions, grains, "
                     "convert spherical, separators, comments, malformed rows) delivered whole, torn, corrupted or in short reads; the table is "
                     "compared column-by-header-name with a reference formatter applied to the library's answers. Non-trivial = at least one "
                     "data row was compared; distinct = distinct event-log hash."),
    "C18": dict(parts=[("asan", 1.0)], quick=500, thorough=9000, chunk=10, timeout=240,
                rule="one run = gwb-grid's main() in-process (seeded -j and schedule) on a generated grid file; captured VTU files are parsed; "
                     "node set/cells/Depth compared with a reference mesh, node values with the library at the node, filtered/by-tag files with "
                     "a reference selection. Non-trivial = a VTU file was parsed and compared; distinct = distinct event-log hash."),
}

COMPONENTS = {
    "real": ["WorldBuilder library (all of source/world_builder, compiled from the working tree with -DGWB_VERIF)",
             "source/gwb-grid/main.cc and source/gwb-dat/main.cc (compiled in through macro seams)",
             "C and C++ wrappers", "rapidjson, vtu11, delaunator (vendored)", "libstdc++ iostreams/filebuf"],
    "simulated": ["kernel file I/O (memfd-backed in-memory map with injected faults, sim/simfs.cc)",
                  "OS scheduling (real pthreads parked and released one at a time, sim/simsched.cc)",
                  "std::thread inside gwb-grid (std::sim_thread, same surface)", "stdout/stderr of the tools (captured buffers)",
                  "operator new (armed countdown)"],
    "not_present": ["MPI (compiled out in the pinned build)", "Fortran and Python wrappers", "clocks/timers (none in the code: simulated_time_s is 0)"],
}


def load_known():
    p = os.path.join(VERIF, "known_findings.json")
    if not os.path.exists(p):
        return {"known": [], "fixed": []}
    return json.load(open(p))


def match_known(known, prop, cls, site):
    for k in known.get("known", []):
        if k.get("property") == prop and k.get("class") == cls and re.fullmatch(k.get("site", ".*"), site or ""):
            return k
    return None


# ------------------------------------------------------------------ running one scenario in a fresh process
def crash_site(stderr):
    """first frame of a sanitizer stack that lies in the repository's own code"""
    # valgrind memcheck: "==pid== <what>" followed by "==pid==    at 0x...: function (file.cc:line)"
    vg = re.search(r"==\d+== (Conditional jump or move depends on uninitialised value|Use of uninitialised value|Invalid (read|write)|Syscall param .* uninitialised)", stderr)
    if vg:
        for m in re.finditer(r"==\d+==\s+(?:at|by) 0x[0-9A-F]+: (.+?) \((\S+?):(\d+)\)", stderr[vg.start():]):
            fn, fname = m.group(1), m.group(2)
            if fn.startswith(("WorldBuilder::", "gwb_", "create_world", "properties_", "temperature_", "composition_", "wrapper_cpp::")):
                return "valgrind:%s@%s" % (re.sub(r"\(.*", "", fn), fname)
        return "valgrind:" + vg.group(1).split()[0]
    k = re.search(r"ERROR: \w+Sanitizer|runtime error:", stderr)
    if k:
        stderr = stderr[k.start():]
    for m in re.finditer(r"#\d+ 0x[0-9a-f]+ in (\S.*?) (/\S+?):(\d+)", stderr):
        fn, path = m.group(1), m.group(2)
        if "/include/rapidjson/" in path or "/verif/sim/" in path or path.startswith("/usr/"):
            continue
        if "/source/" in path or "/include/world_builder/" in path or "/include/" in path:
            fn = re.sub(r"\(.*", "", fn)
            return "%s@%s" % (fn, os.path.basename(path))
    m = re.search(r"ERROR: \w+Sanitizer: ([\w-]+)", stderr) or re.search(r"SUMMARY: \w+Sanitizer: (\S+)", stderr)
    return m.group(1) if m else "unknown"


def run_exec(binary, scenario, timeout=120, verbose=False, workdir=None):
    """-> dict(classes=[(cls, site, detail)], hash, redo_same, crashed, stderr, result)"""
    workdir = workdir or os.path.join(VERIF, "work")
    os.makedirs(workdir, exist_ok=True)
    path = os.path.join(workdir, "exec-%d-%d.json" % (os.getpid(), threading.get_ident()))
    with open(path, "w") as f:
        json.dump(scenario, f)
    prop = scenario.get("property", "?")
    try:
        r = subprocess.run([binary, "exec", path] + (["-v"] if verbose else []), stdout=subprocess.PIPE, stderr=subprocess.PIPE,
                           timeout=timeout, env=child_env())
        out, err, rc = r.stdout.decode("utf-8", "replace"), r.stderr.decode("utf-8", "replace"), r.returncode
        hung = False
    except subprocess.TimeoutExpired as e:
        out = (e.stdout or b"").decode("utf-8", "replace")
        err = (e.stderr or b"").decode("utf-8", "replace")
        rc, hung = -9, True
    finally:
        try:
            os.unlink(path)
        except OSError:
            pass
    res = dict(classes=[], hash=None, redo_same=True, crashed=False, stderr=err, result=None, rc=rc)
    m = re.search(r"^END 0 (.*)$", out, re.M)
    if hung:
        res["crashed"] = True
        res["classes"] = [(prop + "/hang", "hang", "no result within %d s" % timeout)]
        return res
    if not m:
        res["crashed"] = True
        if rc == 81:
            res["classes"] = [(prop + "/tsan", "tsan", "40 ThreadSanitizer reports, run stopped (see stderr of the replay)")]
            return res
        what = "terminate" if "TERMINATE" in out else ("sanitizer" if rc == 77 else "signal/exit %d" % rc)
        res["classes"] = [(prop + "/crash", crash_site(err), what + ": " + summarise_stderr(err))]
        return res
    d = json.loads(m.group(1))
    res["result"] = d
    res["hash"] = d["hash"]
    res["classes"] = [(v["class"], v["site"], v["detail"]) for v in d["violations"]]
    res["redo_same"] = "REDO same" in out
    if "REDO" not in out:
        # crashed in the second execution
        res["crashed"] = True
        res["classes"].append((prop + "/crash", crash_site(err), "second execution in the same process died: " + summarise_stderr(err)))
    return res


def summarise_stderr(err):
    for line in err.splitlines():
        if "ERROR: " in line or "runtime error" in line or "WARNING: ThreadSanitizer" in line or "uninitialised" in line or "== Invalid " in line:
            return line.strip()[:300]
    tail = [l for l in err.strip().splitlines() if l.strip()]
    return (tail[-1][:300] if tail else "")


def child_env():
    e = dict(os.environ)
    e["GWB_VERIF_DIR"] = VERIF
    e.setdefault("TSAN_OPTIONS", "halt_on_error=0:suppress_equal_stacks=0:suppress_equal_addresses=0:exitcode=0:report_signal_unsafe=0")
    e["ASAN_SYMBOLIZER_PATH"] = "/usr/bin/llvm-symbolizer-14" if os.path.exists("/usr/bin/llvm-symbolizer-14") else e.get("ASAN_SYMBOLIZER_PATH", "")
    return e


# ------------------------------------------------------------------ minimiser
def with_history(prefix, sc, alone_hash=None):
    """a scenario together with the scenarios that ran before it in the same process"""
    if not prefix:
        return sc
    d = {"property": sc.get("property"), "sequence": list(prefix) + [sc]}
    if alone_hash:
        d["alone_hash"] = alone_hash   # what the last scenario's event log hashes to when nothing ran before it
    return d


class Minimiser:
    def __init__(self, binary, scenario, cls, site, timeout, budget_runs=160, budget_s=90, prefix=None, alone_hash=None):
        self.binary, self.cls, self.site, self.timeout = binary, cls, site, timeout
        self.best = scenario
        self.prefix = prefix or []   # scenarios executed before it in the same process (a history replay)
        self.alone_hash = alone_hash
        self.runs = 0
        self.budget_runs, self.deadline = budget_runs, time.time() + budget_s

    def fails(self, sc):
        if self.runs >= self.budget_runs or time.time() > self.deadline:
            return False
        self.runs += 1
        r = run_exec(self.binary, with_history(self.prefix, sc, self.alone_hash), self.timeout)
        return any(c == self.cls and s == self.site for c, s, _ in r["classes"])

    def shrink_prefix(self):
        """drop predecessors that the failure does not need (greedy, last to first keeps the order of the rest)"""
        i = 0
        while i < len(self.prefix) and self.runs < self.budget_runs and time.time() < self.deadline:
            cand = self.prefix[:i] + self.prefix[i + 1:]
            self.runs += 1
            r = run_exec(self.binary, with_history(cand, self.best, self.alone_hash), self.timeout)
            if any(c == self.cls and s == self.site for c, s, _ in r["classes"]):
                self.prefix = cand
            else:
                i += 1

    def ddmin_list(self, get, put, min_len=0):
        """generic ddmin over a list inside the scenario"""
        items = get(self.best)
        n = 2
        while len(items) > min_len and n <= max(2, len(items)):
            size = max(1, len(items) // n)
            removed = False
            for i in range(0, len(items), size):
                cand_items = items[:i] + items[i + size:]
                if len(cand_items) < min_len:
                    continue
                cand = copy.deepcopy(self.best)
                put(cand, cand_items)
                if self.fails(cand):
                    self.best, items = cand, cand_items
                    n = max(n - 1, 2)
                    removed = True
                    break
            if not removed:
                if size == 1:
                    break
                n = min(len(items), n * 2)
            if self.runs >= self.budget_runs or time.time() > self.deadline:
                break

    def run(self):
        # 1. threads, then ops
        if self.best.get("threads"):
            self.ddmin_list(lambda s: s["threads"], lambda s, v: s.__setitem__("threads", v), 1)
            for t in range(len(self.best.get("threads", []))):
                self.ddmin_list(lambda s, t=t: s["threads"][t], lambda s, v, t=t: s["threads"].__setitem__(t, v))
        self.ddmin_list(lambda s: s["ops"], lambda s, v: s.__setitem__("ops", v))
        # 2. per op: faults, alloc faults, property lists, argv flags
        def all_ops(s):
            for o in s["ops"]:
                yield o
            for t in s.get("threads", []):
                for o in t:
                    yield o
        nops = len(list(all_ops(self.best)))
        for i in range(nops):
            op = list(all_ops(self.best))[i]
            for key in ("faults", "props"):
                if len(op.get(key, [])) > (1 if key == "props" else 0):
                    def get(s, i=i, key=key):
                        return list(all_ops(s))[i][key]
                    def put(s, v, i=i, key=key):
                        ops_now = list(all_ops(s))
                        ops_now[i][key] = v
                        # twins asked "the same question" must keep asking the same question
                        if key == "props" and ops_now[i].get("eq"):
                            for o2 in ops_now:
                                if o2.get("eq") == ops_now[i]["eq"] and o2.get("op") == ops_now[i].get("op"):
                                    o2[key] = copy.deepcopy(v)
                    self.ddmin_list(get, put, 1 if key == "props" else 0)
            if op.get("alloc_fail"):
                cand = copy.deepcopy(self.best)
                list(all_ops(cand))[i].pop("alloc_fail", None)
                if self.fails(cand):
                    self.best = cand
            if op.get("mask"):
                # fewer disabled shortcut sites
                m = op["mask"]
                for bit in range(16):
                    if m & (1 << bit) and m != (1 << bit):  # sites S1-S9
                        cand = copy.deepcopy(self.best)
                        for o in all_ops(cand):
                            if o.get("mask") == m:
                                o["mask"] = m & ~(1 << bit)
                        if self.fails(cand):
                            self.best = cand
                            m = m & ~(1 << bit)
        # 3. files: drop unused, shrink JSON worlds by deleting features
        used = set()
        for o in all_ops(self.best):
            if o.get("file"):
                used.add(o["file"])
            for a in o.get("argv", []):
                used.add(a)
        cand = copy.deepcopy(self.best)
        cand["files"] = {k: v for k, v in cand["files"].items() if k in used}
        if len(cand["files"]) < len(self.best["files"]) and self.fails(cand):
            self.best = cand
        # an expectation computed by the generator from the document's content ("this text must be rejected")
        # does not survive rewriting the document, so such documents are left as generated
        judged_by_content = any(o.get("expect") in ("reject", "accept") for o in all_ops(self.best))
        for name in list(self.best["files"].keys()):
            v = self.best["files"][name]
            if judged_by_content or not (isinstance(v, dict) and "text" in v):
                continue
            try:
                doc = json.loads(v["text"])
            except Exception:
                continue
            if not (isinstance(doc, dict) and isinstance(doc.get("features"), list) and len(doc["features"]) > 1):
                continue
            def get(s, name=name):
                return json.loads(s["files"][name]["text"])["features"]
            def put(s, feats, name=name):
                d = json.loads(s["files"][name]["text"])
                d["features"] = feats
                s["files"][name] = {"text": json.dumps(d)}
            self.ddmin_list(get, put, 0)
        # 4. schedule: turn the seeded strategy into an explicit script of deviations from
        #    "continue the current task" (strategy 5) and shrink that script
        if self.runs < self.budget_runs and time.time() < self.deadline:
            r = run_exec(self.binary, self.best, self.timeout)
            self.runs += 1
            res = r.get("result") or {}
            holders = []
            if self.best.get("threads") and res.get("dev"):
                holders.append((None, res["dev"]))
            for i, o in enumerate(self.best["ops"]):
                td = res.get("tool_dev", [])
                if o.get("op") == "tool" and i < len(td) and o.get("sched", {}).get("strategy", 6) != 6:
                    holders.append((i, td[i]))
            for idx, dev in holders:
                if len(dev) >= 40000:
                    continue   # script buffer was cut off: keep the seeded strategy
                cand = copy.deepcopy(self.best)
                sched = cand["sched"] if idx is None else cand["ops"][idx]["sched"]
                sched["strategy"] = 5
                sched["script"] = list(dev)
                if not self.fails(cand):
                    continue
                self.best = cand

                def get(s, idx=idx):
                    sc = s["sched"] if idx is None else s["ops"][idx]["sched"]
                    flat = sc["script"]
                    return [flat[k:k + 2] for k in range(0, len(flat) - 1, 2)]

                def put(s, pairs, idx=idx):
                    sc = s["sched"] if idx is None else s["ops"][idx]["sched"]
                    sc["script"] = [x for pr in pairs for x in pr]
                self.ddmin_list(get, put, 0)
        return self.best


# ------------------------------------------------------------------ worker pool
class Pool:
    def __init__(self, binary, prop, seed, tier, runs, chunk, workers, outdir, timeout, deadline, redo_every, flavour):
        self.binary, self.prop, self.seed, self.tier = binary, prop, seed, tier
        self.chunk, self.outdir, self.timeout, self.deadline = chunk, outdir, timeout, deadline
        self.redo_every, self.flavour = redo_every, flavour
        self.todo = queue.Queue()
        for a in range(0, runs, chunk):
            self.todo.put((a, min(runs, a + chunk)))
        self.results = {}     # run -> result dict
        self.infos = {}
        self.crashes = []     # (run, rc, stderr tail, kind)
        self.nondet = []
        self.slice_of = {}   # run -> first run executed by the same process
        self.lock = threading.Lock()
        self.workers = workers
        self.stopped_early = False

    def worker(self):
        while True:
            try:
                a, b = self.todo.get_nowait()
            except queue.Empty:
                return
            if time.time() > self.deadline:
                self.stopped_early = True
                return
            cur = a
            while cur < b:
                cur = self.run_slice(cur, b)

    def run_slice(self, a, b):
        """run a..b in one process; returns the next run index to execute"""
        p = subprocess.Popen([self.binary, "run", self.prop, str(self.seed), str(a), str(b), self.tier, self.outdir, str(self.redo_every)],
                             stdout=subprocess.PIPE, stderr=subprocess.PIPE, env=child_env())
        state = {"begin": None, "done": False, "last": time.time()}
        errbuf = []

        def read_err():
            for line in p.stderr:
                if len(errbuf) < 3000:   # keep the head: the first report is the one that matters
                    errbuf.append(line.decode("utf-8", "replace"))
        te = threading.Thread(target=read_err, daemon=True)
        te.start()

        def watchdog():
            while p.poll() is None:
                time.sleep(1.0)
                if time.time() - state["last"] > self.timeout:
                    state["hang"] = True
                    p.kill()
                    return
        tw = threading.Thread(target=watchdog, daemon=True)
        tw.start()
        last_end = a - 1
        for raw in p.stdout:
            line = raw.decode("utf-8", "replace").rstrip("\n")
            state["last"] = time.time()
            if line.startswith("BEGIN "):
                state["begin"] = int(line.split()[1])
            elif line.startswith("END "):
                _, r, js = line.split(" ", 2)
                with self.lock:
                    self.results[int(r)] = json.loads(js)
                    self.slice_of[int(r)] = a
                last_end = int(r)
            elif line.startswith("INFO "):
                _, r, js = line.split(" ", 2)
                info = json.loads(js)
                with self.lock:
                    self.infos[int(r)] = info
                    if info.get("redone") and not info.get("redo_same"):
                        self.nondet.append(int(r))
            elif line.startswith("DONE"):
                state["done"] = True
        p.wait()
        te.join(timeout=2)
        if state["done"]:
            return b
        r = state["begin"] if state["begin"] is not None and state["begin"] > last_end else last_end + 1
        kind = "hang" if state.get("hang") else "crash"
        with self.lock:
            self.crashes.append((r, p.returncode, "".join(errbuf)[:60000], kind, a))
        return r + 1

    def run(self):
        ts = [threading.Thread(target=self.worker, daemon=True) for _ in range(self.workers)]
        for t in ts:
            t.start()
        for t in ts:
            t.join()


# ------------------------------------------------------------------ scenario helpers
def gen_scenario(binary, prop, seed, run, tier):
    r = subprocess.run([binary, "gen", prop, str(seed), str(run), tier], stdout=subprocess.PIPE, stderr=subprocess.PIPE, env=child_env())
    return json.loads(r.stdout.decode("utf-8", "replace"))


def gen_scenarios(binary, prop, seed, first, n, tier):
    r = subprocess.run([binary, "gen", prop, str(seed), str(first), tier, str(n)], stdout=subprocess.PIPE, stderr=subprocess.PIPE, env=child_env())
    return [json.loads(l) for l in r.stdout.decode("utf-8", "replace").splitlines() if l.startswith("{")]


def summarise_scenario(sc):
    def op_s(o):
        s = o.get("op", "?")
        if s in ("q3", "q2"):
            s += ":" + o.get("via", "properties") + ":" + ",".join("%d.%d.%d" % tuple(p) for p in o.get("props", []))
        if s == "create":
            s += ":" + o.get("kind", "native") + ":" + os.path.basename(o.get("file", ""))[:40]
        if o.get("op") == "tool":
            s += ":" + o.get("tool", "") + " " + " ".join(o.get("argv", [])[1:])
        if o.get("faults"):
            s += " faults=" + ",".join("%s(%s,%s)" % (f["kind"], f.get("a"), f.get("b")) for f in o["faults"])
        if o.get("alloc_fail"):
            s += " bad_alloc@%d" % o["alloc_fail"]
        if o.get("mask"):
            s += " shortcuts_off=0x%x" % o["mask"]
        return s
    d = {"run": sc.get("run"), "generator": sc.get("generator"), "files": {k: (len(v.get("text", v.get("hex", ""))) if isinstance(v, dict) else len(v)) for k, v in sc.get("files", {}).items()},
         "n_ops": len(sc.get("ops", [])), "ops_head": [op_s(o) for o in sc.get("ops", [])[:12]]}
    if sc.get("threads"):
        d["threads"] = [len(t) for t in sc["threads"]]
        d["sched"] = {k: v for k, v in sc.get("sched", {}).items() if k != "script"}
    return d


# ------------------------------------------------------------------ main check
def check(prop, tier, seed, runs_override=None, workers=None, repo="/repo", time_cap=None):
    t0 = time.time()
    cfg = CONFIG[prop]
    flavours = [f for f, _ in cfg["parts"]]
    if not B.build(repo, flavours, quiet=True):
        print("check.py: build failed")
        return 2
    build_s = time.time() - t0
    runs = runs_override or cfg[tier]
    workers = workers or NCPU
    outdir = os.path.join(VERIF, "work", "%s-%d" % (prop, os.getpid()))
    os.makedirs(outdir, exist_ok=True)
    cap = time_cap or (240 if tier == "quick" else 3600)
    deadline = t0 + build_s + cap
    known = load_known()

    agg = collections.Counter()
    hashes = {}
    first_slice = {}   # run -> first run of the worker process that executed it (first flavour)
    nontrivial_hashes = set()
    interleavings = set()
    total_runs = 0
    viol = collections.OrderedDict()   # (cls, site) -> dict(first run, flavour, detail, count)
    nondet = []
    per_flavour = {}
    walls = []
    stopped_early = False
    for flavour, frac in cfg["parts"]:
        n = max(1, int(runs * frac))
        binary = B.binary(repo, flavour)
        w = workers if flavour != "asan" else min(workers, 16)
        # valgrind runs are a hundred times slower: one run per process so that they spread over the workers
        chunk = 1 if flavour == "vg" else (max(2, cfg["chunk"] // 4) if flavour == "tsan" and prop != "C14" else cfg["chunk"])
        pool = Pool(binary, prop, seed, tier, n, chunk, w, outdir, cfg["timeout"] * (4 if flavour == "vg" else 1), deadline, 50, flavour)
        tp = time.time()
        pool.run()
        per_flavour[flavour] = dict(runs=len(pool.results), wall_s=round(time.time() - tp, 2), crashes=len(pool.crashes))
        stopped_early = stopped_early or pool.stopped_early
        total_runs += len(pool.results)
        for r, d in sorted(pool.results.items()):
            for k, v in d["counters"].items():
                agg[k] += v
            h = d["hash"]
            if flavour == cfg["parts"][0][0]:
                hashes[r] = h
                first_slice[r] = pool.slice_of.get(r, r)
            nt = d["counters"].get("nontrivial", 1 if d["counters"].get("evaluations", 0) > 0 else 0) > 0
            if prop == "C12":
                nt = any(k.startswith("fault_") for k in d["counters"]) or any(
                    k.startswith("probe_") and k not in ("probe_valid", "probe_intact-after") for k in d["counters"])
            if prop == "C14":
                nt = d["sched"]["decisions"] > 0 or d["counters"].get("sched_decisions", 0) > 0
            if nt:
                nontrivial_hashes.add(h)
            if d["sched"]["decisions"] > 0:
                interleavings.add(d["sched"]["trace"])
            for tr in d.get("tool_traces", []):
                interleavings.add(tr)
            for v in d["violations"]:
                key = (v["class"], v["site"])
                e = viol.setdefault(key, dict(run=r, flavour=flavour, detail=v["detail"], count=0, slice=pool.slice_of.get(r, r)))
                e["count"] += 1
        for r, rc, err, kind, slice_start in pool.crashes:
            cls = prop + "/" + kind
            site = crash_site(err) if kind == "crash" else "hang"
            if rc == 81:
                cls, site = prop + "/tsan", "tsan"   # the process stopped itself after 40 ThreadSanitizer reports
            e = viol.setdefault((cls, site), dict(run=r, flavour=flavour, detail="worker died (rc %s): %s" % (rc, summarise_stderr(err)), count=0, slice=slice_start))
            e["count"] += 1
        for r in pool.nondet:
            nondet.append((flavour, r))
        for r, info in pool.infos.items():
            walls.append(info.get("wall", 0))

    # ---------------- process history: a sample of runs is executed again, each alone in a fresh process. A worker
    # had built and destroyed other worlds before it came to that run; the responses have to be the same anyway.
    if cfg.get("history") and time.time() < deadline:
        nq, nt = cfg["history"]
        n = nq if tier == "quick" else nt
        if runs_override:
            n = max(4, int(n * runs_override / cfg[tier]))
        flavour = cfg["parts"][0][0]
        binary = B.binary(repo, flavour)
        cand = sorted(r for r in hashes if first_slice.get(r, r) < r)
        rnd = random.Random(seed)
        rnd.shuffle(cand)
        cand = cand[:n]
        tp = time.time()
        hist_lock = threading.Lock()
        todo = queue.Queue()
        for r in cand:
            todo.put(r)
        done = [0]

        def history_worker():
            while time.time() < deadline:
                try:
                    r = todo.get_nowait()
                except queue.Empty:
                    return
                sc = gen_scenario(binary, prop, seed, r, tier)
                if sc.get("cold"):
                    continue
                x = run_exec(binary, sc, cfg["timeout"], workdir=outdir)
                with hist_lock:
                    done[0] += 1
                    agg["history_cross_checks"] += 1
                    if x["hash"] is not None and x["hash"] != hashes[r]:
                        agg["history_cross_check_differences"] += 1
                        key = (prop + "/process-history", "responses")
                        e = viol.setdefault(key, dict(run=r, flavour=flavour, count=0, slice=first_slice.get(r, r), alone_hash=x["hash"],
                                                      detail="run %d: responses hash to %s in the worker that had executed runs %d..%d before it, to %s alone in a fresh process"
                                                      % (r, hashes[r], first_slice.get(r, r), r - 1, x["hash"])))
                        e["count"] += 1
        ts = [threading.Thread(target=history_worker, daemon=True) for _ in range(workers)]
        for t in ts:
            t.start()
        for t in ts:
            t.join()
        per_flavour[flavour + "-alone-in-fresh-process"] = dict(runs=done[0], wall_s=round(time.time() - tp, 2), crashes=0)

    # ---------------- cold-start scenarios: each one is the first thing a fresh process does
    if cfg.get("cold") and time.time() < deadline:
        flavour, nq, nt = cfg["cold"]
        n = nq if tier == "quick" else nt
        if runs_override:
            n = max(4, int(n * runs_override / cfg[tier]))
        binary = B.binary(repo, flavour)
        tp = time.time()
        gen = subprocess.run([B.binary(repo, cfg["parts"][0][0]), "gen", prop, str(seed), str(COLD_BASE), tier + "+cold", str(n)],
                             stdout=subprocess.PIPE, stderr=subprocess.PIPE, env=child_env())
        scs = [json.loads(l) for l in gen.stdout.decode("utf-8", "replace").splitlines() if l.startswith("{")]
        cold_lock = threading.Lock()
        todo = queue.Queue()
        for sc in scs:
            todo.put(sc)
        done = [0]

        def cold_worker():
            while time.time() < deadline:
                try:
                    sc = todo.get_nowait()
                except queue.Empty:
                    return
                r = run_exec(binary, sc, cfg["timeout"], workdir=outdir)
                with cold_lock:
                    done[0] += 1
                    res = r.get("result") or {}
                    for k, v in (res.get("counters") or {}).items():
                        agg[k] += v
                    agg["cold_start_runs"] += 1
                    if res.get("hash"):
                        nontrivial_hashes.add(res["hash"])
                    if (res.get("sched") or {}).get("decisions", 0) > 0:
                        interleavings.add(res["sched"]["trace"])
                    for c, s_, d in r["classes"]:
                        e = viol.setdefault((c, s_), dict(run=sc["run"], flavour=flavour, detail=d, count=0))
                        if e["count"] == 0 and e["run"] == sc["run"]:
                            json.dump(sc, open(os.path.join(outdir, "%s-%d-%d.json" % (prop, seed, sc["run"])), "w"))
                        e["count"] += 1
        ts = [threading.Thread(target=cold_worker, daemon=True) for _ in range(workers)]
        for t in ts:
            t.start()
        for t in ts:
            t.join()
        total_runs += done[0]
        per_flavour[flavour + "-cold-start"] = dict(runs=done[0], wall_s=round(time.time() - tp, 2), crashes=0)

    # ---------------- violations: minimise, gate, classify
    exit_code = 0
    lines = []
    n_new = 0
    n_minimised = 0
    known_hits = []
    os.makedirs(os.path.join(VERIF, "replays"), exist_ok=True)
    for (cls, site), e in viol.items():
        k = match_known(known, prop, cls, site)
        binary = B.binary(repo, e["flavour"])
        sc_path = os.path.join(outdir, "%s-%d-%d.json" % (prop, seed, e["run"]))
        if os.path.exists(sc_path):
            sc = json.load(open(sc_path))
        else:
            sc = gen_scenario(binary, prop, seed, e["run"], tier)
        first = run_exec(binary, sc, cfg["timeout"])
        reproduced = any(c == cls and s == site for c, s, _ in first["classes"])
        prefix = []
        if not reproduced and e.get("slice") is not None and e["slice"] < e["run"] and not sc.get("cold"):
            # The batch saw it, the scenario alone in a fresh process does not show it. Before that is called
            # nondeterminism: the runs that the same worker process executed before it are part of the history
            # ("answers do not depend on what else the process has built"). Replay them in front of it.
            try:
                prefix = gen_scenarios(binary, prop, seed, e["slice"], e["run"] - e["slice"], tier)
            except Exception:
                prefix = []
            if prefix:
                again = run_exec(binary, with_history(prefix, sc, e.get("alone_hash")), cfg["timeout"] * 4)
                reproduced = any(c == cls and s == site for c, s, _ in again["classes"])
                if not reproduced:
                    prefix = []
        if not reproduced:
            # neither alone nor after its predecessors: that is nondeterminism of the machinery, not a finding
            lines.append("NONDETERMINISTIC property=%s class=%s site=%s run=%d (seen in batch, not in a fresh process)" % (prop, cls, site, e["run"]))
            exit_code = max(exit_code, 2)
            continue
        if k is not None:
            known_hits.append((cls, site, k))
            continue
        # full minimisation for the first few signatures, a lighter pass for the rest (bounded wall clock)
        n_minimised += 1
        mini = Minimiser(binary, sc, cls, site, cfg["timeout"] * (4 if prefix else 1),
                         budget_runs=160 if n_minimised <= 3 else 25, budget_s=(90 if n_minimised <= 3 else 20) * (3 if prefix else 1), prefix=prefix,
                         alone_hash=e.get("alone_hash"))
        if n_minimised > 8:
            mini.budget_runs = 0
        if prefix:
            mini.shrink_prefix()
        # a scenario judged by "same responses as alone" is kept as it is: its expected hash belongs to it
        small = with_history(mini.prefix, mini.best if e.get("alone_hash") else mini.run(), e.get("alone_hash"))
        small["expected_class"] = cls
        small["expected_site"] = site
        small["flavour"] = e["flavour"]
        rp = os.path.join(VERIF, "replays", "%s-%d-%d-%s.json" % (prop, seed, e["run"], hashlib.sha1((cls + site).encode()).hexdigest()[:6]))
        json.dump(small, open(rp, "w"), indent=1)
        gate = run_exec(binary, small, cfg["timeout"])
        ok = any(c == cls and s == site for c, s, _ in gate["classes"]) and (gate["redo_same"] or gate["crashed"])
        if not ok:
            lines.append("NONDETERMINISTIC property=%s class=%s site=%s replay=%s (minimised replay does not reproduce)" % (prop, cls, site, rp))
            exit_code = max(exit_code, 2)
            continue
        n_new += 1
        detail = [d for c, s, d in gate["classes"] if c == cls and s == site][0]
        lines.append("VIOLATION property=%s replay=%s" % (prop, rp))
        lines.append("  class=%s site=%s flavour=%s occurrences=%d minimised_with=%d executions: %s" % (cls, site, e["flavour"], e["count"], mini.runs, detail[:600]))
        exit_code = max(exit_code, 1)
    for cls, site, k in known_hits:
        lines.append("KNOWN-FINDING: property=%s %s [class=%s site=%s]" % (prop, k.get("what", ""), cls, site))
    if nondet:
        lines.append("NONDETERMINISTIC property=%s runs re-executed in the same process gave a different event log: %s" % (prop, nondet[:10]))
        exit_code = max(exit_code, 2)

    # ---------------- evidence
    wall = time.time() - t0
    samples = []
    try:
        b0 = B.binary(repo, cfg["parts"][0][0])
        for r in sorted(hashes)[:3]:
            samples.append(summarise_scenario(gen_scenario(b0, prop, seed, r, tier)))
    except Exception as ex:  # pragma: no cover
        samples.append({"error": str(ex)})
    faults = {k[len("fault_"):]: v for k, v in agg.items() if k.startswith("fault_")}
    probes = {k[len("probe_"):]: v for k, v in agg.items() if k.startswith("probe_")}
    buggify = {k[len("buggify_"):]: v for k, v in agg.items() if k.startswith("buggify_")}
    steps = dict(operations=agg.get("ops", 0), scheduler_points=agg.get("sched_points", 0), scheduler_decisions=agg.get("sched_decisions", 0),
                 context_switches=agg.get("sched_switches", 0), file_layer_calls=agg.get("fs_calls", 0))
    ev = dict(
        property_id=prop, tier=tier, seed=seed, level="exploration",
        coverage=dict(
            evaluations=int(max(1, agg.get("evaluations", 0) + (agg.get("outcome_checks", 0) if prop in ("C12", "C17", "C18") else 0))),
            distinct_nontrivial=len(nontrivial_hashes),
            rule=cfg["rule"],
            samples=samples,
            runs=total_runs, runs_per_flavour=per_flavour,
            runs_per_hour=int(total_runs / max(wall - build_s, 1e-3) * 3600),
            seeds="VERIF_SEED=%d, run indices 0..%d (run seed = mix(VERIF_SEED, index))" % (seed, runs - 1),
            simulated_time_s=0, simulated_time_note="the code under test has no clock, timer or timeout; progress is counted in steps",
            steps=steps, faults_fired=faults, buggify_sites_fired=buggify, probes=probes,
            distinct_interleavings=len(interleavings), distinct_event_logs=len(set(hashes.values())),
            counters={k: v for k, v in sorted(agg.items()) if not k.startswith(("fault_", "probe_", "buggify_"))},
            components=COMPONENTS, stopped_at_time_cap=stopped_early,
            median_run_wall_s=(sorted(walls)[len(walls) // 2] if walls else None),
        ),
        assumptions=["the oracle worlds are built by the same library (a fresh instance, stand-alone single-property queries)",
                     "sanitizer flavours are clang -O1, the plain flavour g++ -O2; both with -DNDEBUG as shipped",
                     "simulation samples schedules/faults/histories; a clean batch is evidence, not proof"],
        wall_s=round(wall, 2), violations=n_new, known_findings=len(known_hits), build_s=round(build_s, 2),
    )
    # evidence is only ever written for the real tree; runs against scratch copies leave it alone
    evdir = os.path.join(VERIF, "evidence") if os.path.realpath(repo) == "/repo" else os.path.join(VERIF, "work", "evidence-scratch")
    os.makedirs(evdir, exist_ok=True)
    json.dump(ev, open(os.path.join(evdir, prop + ".json"), "w"), indent=1)
    # a violation that passed the gate is a violation, whatever else could not be reproduced
    if n_new > 0:
        exit_code = 1
    for l in lines:
        print(l)
    print("check.py: property=%s tier=%s seed=%d runs=%d evaluations=%d distinct=%d wall=%.1fs exit=%d" % (
        prop, tier, seed, total_runs, agg.get("evaluations", 0), len(nontrivial_hashes), wall, exit_code))
    # scratch
    try:
        for f in os.listdir(outdir):
            os.unlink(os.path.join(outdir, f))
        os.rmdir(outdir)
    except OSError:
        pass
    return exit_code


def replay(prop, path, repo="/repo"):
    sc = json.load(open(path))
    flavour = sc.get("flavour", CONFIG[prop]["parts"][0][0])
    if not B.build(repo, [flavour], quiet=True):
        return 2
    r = run_exec(B.binary(repo, flavour), sc, CONFIG[prop]["timeout"], verbose=True)
    exp = (sc.get("expected_class"), sc.get("expected_site"))
    for c, s, d in r["classes"]:
        print("class=%s site=%s: %s" % (c, s, d[:1000]))
    if r["crashed"] or any("tsan" in c for c, _, _ in r["classes"]):
        sys.stdout.write(r["stderr"][-6000:])
    hit = any((c, s) == exp for c, s, _ in r["classes"]) if exp[0] else bool(r["classes"])
    if hit:
        print("VIOLATION property=%s replay=%s" % (prop, path))
        return 1
    print("replay: no violation%s" % ("" if not exp[0] else " of class %s site %s" % exp))
    return 0


def selftest_determinism(props, n=200, repo="/repo"):
    bad = 0
    for prop in props:
        cfg = CONFIG[prop]
        flavour = cfg["parts"][0][0]
        B.build(repo, [flavour], quiet=True)
        binary = B.binary(repo, flavour)
        logs = []
        for workers in (1, 8, 16):
            outdir = os.path.join(VERIF, "work", "det-%s-%d" % (prop, workers))
            os.makedirs(outdir, exist_ok=True)
            pool = Pool(binary, prop, 12345, "quick", n, 7 if workers == 8 else 20, workers, outdir, cfg["timeout"], time.time() + 3600, 1, flavour)
            pool.run()
            logs.append({r: d["hash"] for r, d in pool.results.items()})
            bad += len(pool.nondet)
        diff = [r for r in logs[0] if any(l.get(r) != logs[0][r] for l in logs[1:])]
        print("selftest-determinism %s: %d runs x (1,8,16 workers, each run executed twice in-process): %d cross-process differences, %d in-process differences" % (
            prop, n, len(diff), bad))
        bad += len(diff)
    return 0 if bad == 0 else 2


if __name__ == "__main__":
    ap = argparse.ArgumentParser()
    ap.add_argument("what")
    ap.add_argument("--tier", default=os.environ.get("VERIF_TIER", "quick"))
    ap.add_argument("--runs", type=int)
    ap.add_argument("--workers", type=int)
    ap.add_argument("--repo", default=os.environ.get("GWB_REPO", "/repo"))
    ap.add_argument("--replay")
    ap.add_argument("--props", default="C01")
    ap.add_argument("--n", type=int, default=200)
    ap.add_argument("--time-cap", type=int)
    a = ap.parse_args()
    seed = int(os.environ.get("VERIF_SEED", "1"))
    if a.what == "selftest-determinism":
        sys.exit(selftest_determinism(a.props.split(","), a.n, a.repo))
    if a.what not in CONFIG:
        print("unknown property", a.what)
        sys.exit(2)
    if a.replay:
        sys.exit(replay(a.what, a.replay, a.repo))
    sys.exit(check(a.what, a.tier if a.tier in ("quick", "thorough") else "quick", seed, a.runs, a.workers, a.repo, a.time_cap))
