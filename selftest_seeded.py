#!/usr/bin/env python3
"""Sensitivity self-test: every change kept under seeded/ (written by independent
sub-agents) and every reverse patch of a fix commit (seeded/reverts/) is applied
to a scratch worktree and the checks named in its meta.json are run against it.

  selftest_seeded.py [--only PREFIX] [--runs N]

Prints one line per change: which checks were expected to catch it and which did.
Takes a few minutes per change (scratch build + quick tier); nothing is applied
to /repo and every scratch worktree is removed again."""
import argparse, glob, json, os, re, subprocess, sys

VERIF = os.path.dirname(os.path.abspath(__file__))
# revert-b9f1575e ([T,T] at a forced surface) is not listed: it needs a point on a polygon vertex whose depth surface
# lookup throws, which the quick tier does not reach (found by the thorough tier of C01, one run in 46 000)
REVERT_PROPS = {"11c231ff": ["C12"], "b1598b18": ["C17"], "6f04c581": ["C12"], "ee272b9c": ["C12"], "47aaac4c": ["C12"], "3e27d57a": ["C12"],
                "3b300340": ["C12"], "65aa6b83": ["C12"], "fb01c9c5": ["C16"], "3da0c043": ["C07"], "a002ea58": ["C01", "C12"], "e1cd260f": ["C01"],
                "3b4624e1": ["C01"], "300f347a": ["C12"], "73cf7893": ["C12"], "ca21fd44": ["C12"], "ca21fd44": ["C12"], "38279454": ["C12", "C14"]}


def main():
    ap = argparse.ArgumentParser()
    ap.add_argument("--only", default="")
    ap.add_argument("--runs", type=int)
    a = ap.parse_args()
    todo = []
    for d in sorted(glob.glob(os.path.join(VERIF, "seeded", "C*"))):
        meta = json.load(open(os.path.join(d, "meta.json")))
        todo.append((os.path.basename(d), os.path.join(d, "patch.diff"), meta.get("caught_by") or [meta["property"]]))
    for p in sorted(glob.glob(os.path.join(VERIF, "seeded", "reverts", "revert-*.diff"))):
        c = re.search(r"revert-([0-9a-f]+)\.diff", p).group(1)
        todo.append(("revert-" + c, p, REVERT_PROPS.get(c, [])))
    bad = 0
    for name, patch, props in todo:
        if a.only and not name.startswith(a.only):
            continue
        if not props:
            continue
        if subprocess.run(["git", "-C", "/repo", "apply", "--check", patch], stderr=subprocess.DEVNULL).returncode != 0:
            print("%-55s patch no longer applies to /repo HEAD (skipped)" % name)
            continue
        cmd = [sys.executable, os.path.join(VERIF, "evalmut.py"), patch] + props + (["--runs", str(a.runs)] if a.runs else [])
        out = subprocess.run(cmd, stdout=subprocess.PIPE, stderr=subprocess.STDOUT, text=True).stdout
        m = re.search(r"caught by (\[.*\]|NOTHING)", out)
        caught = [] if not m or m.group(1) == "NOTHING" else json.loads(m.group(1).replace("'", '"'))
        ok = all(p in caught for p in props[:1])
        bad += 0 if ok else 1
        print("%-55s expected %-12s caught by %-14s %s" % (name, ",".join(props), ",".join(caught) or "-", "ok" if ok else "MISSED"))
        sys.stdout.flush()
    return 0 if bad == 0 else 1


if __name__ == "__main__":
    sys.exit(main())
