#!/usr/bin/env python3
"""Writes MANIFEST.json from the table below (kept next to check.py so the two stay in step)."""
import json, os, subprocess
VERIF = os.path.dirname(os.path.abspath(__file__))

CLAIMED = {
    "C01": ("hist", "seeded search over operation histories (several live worlds, entry points, batching, failing requests, allocation faults) with a stateless reference oracle; a sample of runs re-executed alone in fresh processes and compared with what a worker answered after its earlier runs (process-wide state), violations replayed as histories of scenarios; simulated allocator that recycles addresses; minimised replay",
            "3 (C01)"),
    "C07": ("hist+buggify", "buggify-style seeded skipping of fast paths (hooks S1-S8) on a twin world, placed points along generated slabs/faults/depth surfaces, twin-equality oracle; further lives of the twin pair (destroyed and rebuilt from a sibling file, optionally on a simulated allocator that recycles addresses) asked the predecessors' last points; minimised replay",
            "3 (C07), 2.6"),
    "C12": ("ctor", "world construction over the simulated file layer: structural mutators on corpus/generated documents, seeded fault plans (torn/corrupted/short/interrupted/failing reads, file changing between the two opens, open failure), allocation faults, raw byte strings, formatting variants; oracle = outcome in {built, std::exception with message} under ASan/UBSan, published-schema/length/version/JSON rules reject, intact file still builds afterwards; file rewritten between two constructions (simulated stat); concurrent constructions under the seeded scheduler and ThreadSanitizer, including cold starts (the scenario is the first thing a fresh process does); minimised replay",
            "3 (C12)"),
    "C14": ("sched", "deterministic scheduler (real pthreads parked/released one at a time through raw futexes in an uninstrumented TU, so ThreadSanitizer still sees the races) deciding every switch of 2-32 client threads and of gwb-grid's worker threads at spawn/join/exit/op boundaries the yield points inside World::properties and World::World and, in the ThreadSanitizer build, every n-th control-flow edge of the library (coverage guards turned into seeded preemption points); mutex locks of the code under test routed through the scheduler; oracles: sequential reference for property and distance answers, TSan report count, -j N bytes == -j 1 bytes, join-before-write; seeded strategies (random, burst, round robin, PCT, starve-one); minimised replay",
            "3 (C14), 2.3"),
    "C15": ("hist", "seeded histories on worlds with hidden RNG state: twins interleaved differently with other worlds, mt19937 engine state checked at creation, validity invariants (rotations, normalised and fixed sizes, bounds), concurrent twins under the scheduler, fresh-process cross-check of a sample of runs; minimised replay",
            "3 (C15)"),
    "C16": ("hist+fs", "seeded histories through native/C/C++ handles created in twins; responses, failures and the simulated file layer's effect trace of create_world compared; open-failure faults, concurrent clients of one handle under the scheduler, fresh-process cross-check of a sample of runs; minimised replay",
            "3 (C16)"),
    "C17": ("tool", "gwb-dat's main() run in-process on the simulated file layer with generated data files (grammar incl. comment/option/malformed lines) delivered whole, torn, corrupted, in short reads or with EINTR; stdout compared column-by-header-name with a reference formatter over the library's answers; minimised replay",
            "3 (C17)"),
    "C18": ("tool+sched", "gwb-grid's main() run in-process with seeded -j/worker schedules and short/interrupted writes on the simulated file layer; captured VTU files parsed (ascii and base64) and compared with a reference mesh, the library's values at every node (bit-exact in binary formats) and a reference tag selection for --filtered/--by-tag; minimised replay",
            "3 (C18)"),
}
PLANNED = {}
NA = {
    "C02": "pure function of (feature list, point): no schedule, fault, I/O delivery or history in the statement; deciding it needs input generation against a reference painter, which is a different technique",
    "C03": "closed form in the file's constants, pure function of (file, point); its 'however the request is batched' clause is exercised by C01's block oracle but the property as a whole has nothing to simulate",
    "C04": "pure geometry (polygon / ellipse membership) of (file, point); nothing can differ between two executions of the same input",
    "C05": "closed-form models are pure functions of their parameters; would need an independent model library, not a simulator",
    "C06": "pure geometry against a planar construction; no schedule, fault or history",
    "C08": "metamorphic relation between two inputs (rigid motion of world plus query); nothing to interleave or fail",
    "C09": "pure coordinate mapping 2D->3D; the 2D entry point is used in the C01/C14/C18 workloads but 2D-vs-3D equality is not a history or schedule property",
    "C10": "equivalence of two input layouts (inherited vs explicit segment models); pure",
    "C11": "pure interpolation property of depth surfaces",
    "C13": "totality/finiteness of a pure function of (world, point); the only fault surface (allocation) is not what the property quantifies over",
    "C19": "geometric kernels vs brute-force definitions: pure functions called directly",
    "C20": "physical envelope of a pure function of model parameters",
}
LEVEL_TEXT = {
    "C17": "Exploration under ASan/UBSan: the tool is a reader of an external stream and a formatter; runs vary the data file (options, separators, comments, malformed lines) and the way its bytes arrive, and check header names, row widths, every value under its header name, visible failure on malformed rows, and byte-identical tables for piecewise delivery. Two genuine column defects that the stored reference logs encode are listed as known findings with narrow signatures.",
    "C18": "Exploration under ASan/UBSan: grid parameters, flags, thread counts, schedules and write faults are sampled; each captured file is parsed and judged against closed-form node sets (cartesian, chunk, annulus; shell radii/counts for the sphere), the Depth convention, the library's own answers at the stored node coordinates, and an independent re-implementation of the tag filter.",
    "C12": "Exploration under ASan/UBSan: the constructor is a reader of an external stream that it opens twice, whose errors it does not check and whose every allocation can fail; runs sample damaged documents and the ways their bytes can be delivered, and demand 'built or std::exception', rejection of what the published schema / length rules / version / JSON grammar exclude, bit-identical worlds for formatting variants, and an undamaged process afterwards. Sampling of an unbounded input space, not proof.",
    "C14": "Exploration of schedules: the scheduler owns every interleaving decision, TSan (happens-before based, blind to the scheduler's futex hand-offs) reports races without the corrupting interleaving having to be hit, and the value/byte oracles catch what is not a data race (missing join, dropped or overlapping slices, order-dependent state). Thousands of distinct decision traces per run, not all interleavings.",
    "C07": "Exploration: per run a generated slab/fault/depth-surface world is built twice, once as shipped and once with a seeded subset of the acceleration shortcuts switched off through guarded hooks; hundreds of points placed by the planar construction (deep end, top end, interior) plus uniform ones are asked of both. Any answer that differs is a point a shortcut discarded. Sampling, not proof; model-level min/max pre-tests are not buggified.",
    "C15": "Exploration: the hidden engine state makes answers history-dependent by design; runs search over seeds, query sequences and interleavings with other worlds, and check twin equality bit for bit, the engine state against an independent mt19937 advanced by the documented number of draws after every operation, seed sensitivity, and rotation/size/bounds validity.",
    "C16": "Exploration under ASan/UBSan: every function of the C API and the C++ wrapper is driven next to a native twin created with the same arguments; bit-identical responses, identical failures, and identical file effects (which paths are opened for writing with which bytes) make 'every argument reaches the world unchanged' observable.",
    "C01": "Exploration: thousands of seeded histories per run, each response compared bit for bit with a stateless reference; the bug class (state leaking from one request, world or entry point into another) only shows for particular op orders, which the seed searches and the minimiser reduces to the 2-3 ops that matter. Not a proof: histories are sampled.",
}
NOTE = {
    "C17": "Trusted: the reference world is built like the tool builds it (seed 1) and asked the same batched request row by row; 'convert spherical' uses the library's public spherical_to_cartesian_coordinates (any other correct formula differs in the last bits); EIO deliveries are recorded, not judged.",
    "C18": "Trusted: values are compared bit for bit only in the base64inline format (ASCII is written with 6 significant digits and is checked structurally); appended/raw formats are checked for their skeleton and for identical bytes across runs only; the sphere is checked for shell radii, per-shell counts and connectivity, not for cubed-sphere node positions.",
    "C12": "Trusted: rapidjson's validator run by the harness against the schema the library under test publishes (captured from the simulated disk); list-length rules transcribed from the parameter documentation and judged only when every key involved is present; malloc is never failed; EIO deliveries carry no expectation; one known finding (Delaunator on extreme depth-surface coordinates) is listed in known_findings.json.",
    "C14": "Trusted: clang's TSan runtime; the stateless reference is computed sequentially after the threads have finished; std::thread inside gwb-grid is replaced by a class of the same surface backed by the scheduler; worlds with random models are excluded as the property says.",
    "C07": "Trusted: the un-culled evaluation (shortcuts off) is the reference; S8 pairs are compared within 1e-9 relative with exact tags; a pair where only one side throws is counted as inconclusive (reported in evidence), not as a violation.",
    "C15": "Trusted: libstdc++'s mt19937/uniform_real_distribution (2 engine calls per double); draw counts are predicted only for box-shaped features where membership is trivial, twins cover slabs/faults and corpus files; generated sizes and bounds are dyadic so the JSON parser stores exactly what was written.",
    "C16": "Trusted: the native World is the reference; the C handle is known to be a World* (used only to read the engine state); output files are captured by the simulated file layer, no real directory is touched.",
    "C01": "Trusted: the reference is the same library asked only stand-alone single-property questions on fresh worlds (checked forward and reverse); corpus = repository's own world files + generated worlds without random models; clang ASan/UBSan for the 15% sanitizer sample.",
}


def main():
    hooks = subprocess.run(["git", "-C", "/repo", "log", "--format=%H %s", "--grep=^verif hook"], stdout=subprocess.PIPE, text=True).stdout.strip().splitlines()
    checks = []
    for pid, (engine, technique, ref) in sorted(CLAIMED.items()):
        checks.append(dict(
            property_id=pid,
            quick_cmd="python3 check.py %s --tier quick" % pid,
            thorough_cmd="python3 check.py %s --tier thorough" % pid,
            evidence_file="/verif/evidence/%s.json" % pid,
            replay_cmd_template="python3 check.py %s --replay {path}" % pid,
            engine=engine,
            level_claimed=dict(category="exploration", text=LEVEL_TEXT[pid], design_ref="DESIGN.md section " + ref),
            level_note=NOTE[pid],
            technique="deterministic simulation with fault injection: " + technique,
        ))
    na = [dict(property_id=k, reason=v) for k, v in sorted(NA.items())]
    na += [dict(property_id=k, reason=v) for k, v in sorted(PLANNED.items())]
    m = dict(
        version=1,
        setup_cmd="python3 /verif/build.py --flavours plain,asan,tsan",
        hooks=dict(guard="GWB_VERIF",
                   enable="build.py compiles /repo/source/world_builder/**/*.cc and the two tool mains with -DGWB_VERIF into build/<key>/<flavour>/gwbsim (plain g++ -O2, asan clang ASan+UBSan, tsan clang TSan)",
                   baseline_off_cmd="cmake --build /repo/_build && ctest --test-dir /repo/_build -j8 --timeout 900",
                   source_commits=[h.split()[0] for h in hooks][::-1],
                   add_only=True),
        engines=[
            dict(name="hist", path="sim/exec.cc + sim/gen.cc", serves_properties=["C01", "C07", "C15", "C16"], kind_free_text="seeded operation histories over live worlds with reference / twin oracles"),
            dict(name="ctor", path="sim/gen_c12.cc", serves_properties=["C12"], kind_free_text="world construction over the simulated file layer with structural mutators and fault plans"),
            dict(name="sched", path="sim/simsched.cc", serves_properties=["C14", "C18"], kind_free_text="deterministic scheduler (parked pthreads, TSan-invisible) for concurrent clients and gwb-grid workers"),
            dict(name="tool", path="sim/tool_grid.cc sim/tool_dat.cc sim/toolcheck.cc", serves_properties=["C17", "C18", "C14"], kind_free_text="gwb-dat / gwb-grid main() run in-process on the simulated file layer with reference formatter / mesh"),
        ],
        checks=checks,
        not_applicable=na,
        notes="All checks: python3 check.py <id>; VERIF_SEED selects the batch; replays in /verif/replays; known findings in /verif/known_findings.json.",
    )
    json.dump(m, open(os.path.join(VERIF, "MANIFEST.json"), "w"), indent=1)


if __name__ == "__main__":
    main()
