#!/usr/bin/env python3
"""Run checks against a changed copy of the repository (sensitivity testing).

  evalmut.py <patch.diff> <property> [<property> ...] [--runs N] [--tier quick] [--keep]

Creates a scratch git worktree of /repo's HEAD under /dev/shm, applies the
patch, runs `check.py <property> --repo <scratch>` for every property given,
prints the outcome, and removes the worktree together with its build output.
Nothing is ever applied to /repo itself.  Replays found for the changed tree are
moved to work/mutant-replays/ so that /verif/replays only holds findings of the
real tree."""
import argparse, hashlib, os, shutil, subprocess, sys, glob, time

VERIF = os.path.dirname(os.path.abspath(__file__))
sys.path.insert(0, VERIF)
import build as B  # noqa: E402


def main():
    ap = argparse.ArgumentParser()
    ap.add_argument("patch")
    ap.add_argument("props", nargs="+")
    ap.add_argument("--runs", type=int)
    ap.add_argument("--tier", default="quick")
    ap.add_argument("--keep", action="store_true")
    ap.add_argument("--seed", default="1")
    a = ap.parse_args()
    patch = os.path.abspath(a.patch)
    tag = hashlib.sha1(patch.encode()).hexdigest()[:8]
    wt = "/dev/shm/mut_" + tag
    subprocess.run(["git", "-C", "/repo", "worktree", "remove", "--force", wt], stdout=subprocess.DEVNULL, stderr=subprocess.DEVNULL)
    subprocess.check_call(["git", "-C", "/repo", "worktree", "add", "-q", "--detach", wt, "HEAD"])
    rc_all = {}
    try:
        r = subprocess.run(["git", "-C", wt, "apply", patch], stderr=subprocess.PIPE, text=True)
        if r.returncode != 0:
            print("evalmut: patch does not apply:", r.stderr.strip())
            return 3
        before = set(glob.glob(os.path.join(VERIF, "replays", "*.json")))
        for p in a.props:
            t0 = time.time()
            cmd = [sys.executable, os.path.join(VERIF, "check.py"), p, "--repo", wt, "--tier", a.tier]
            if a.runs:
                cmd += ["--runs", str(a.runs)]
            env = dict(os.environ, VERIF_SEED=a.seed, GWB_EVIDENCE_SUFFIX=".mutant")
            r = subprocess.run(cmd, stdout=subprocess.PIPE, stderr=subprocess.STDOUT, text=True, env=env)
            rc_all[p] = r.returncode
            lines = [l for l in r.stdout.splitlines() if l.startswith(("VIOLATION", "  class=", "KNOWN", "NONDET", "check.py:"))]
            print("== %s on %s: exit %d (%.0f s)" % (p, os.path.basename(patch), r.returncode, time.time() - t0))
            for l in lines[:12]:
                print("   " + l[:400])
        os.makedirs(os.path.join(VERIF, "work", "mutant-replays"), exist_ok=True)
        for f in set(glob.glob(os.path.join(VERIF, "replays", "*.json"))) - before:
            shutil.move(f, os.path.join(VERIF, "work", "mutant-replays", tag + "-" + os.path.basename(f)))
    finally:
        if not a.keep:
            subprocess.run(["git", "-C", "/repo", "worktree", "remove", "--force", wt], stdout=subprocess.DEVNULL, stderr=subprocess.DEVNULL)
            shutil.rmtree(os.path.join(VERIF, "build", B.build_key(wt)), ignore_errors=True)
    caught = [p for p, rc in rc_all.items() if rc == 1]
    print("evalmut: %s caught by %s" % (os.path.basename(os.path.dirname(patch)) or patch, caught if caught else "NOTHING"))
    return 0


if __name__ == "__main__":
    sys.exit(main())
