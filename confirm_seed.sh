#!/bin/bash
# confirm_seed.sh <worktree> <out-subdir> : confirm an independently written breaking change:
#   suite still green with the change, demo fails with it, demo passes without it.
wt=$1; d=$1/out/$2
cd $wt || exit 2
git checkout -q -- . ; git apply $d/patch.diff || { echo "patch does not apply"; exit 2; }
cmake --build _build > /tmp/confirm_build.log 2>&1 || { echo "BUILD FAILED"; tail -5 /tmp/confirm_build.log; git checkout -q -- .; exit 2; }
ctest --test-dir _build -j8 --timeout 900 2>&1 | grep -E "tests passed|tests failed|Failed" | head -5
git checkout -q -- doc 2>/dev/null; rm -f doc/world_builder_declarations.tex
echo "--- demo WITH change:"; (cd $d && timeout 900 bash ./demo.sh > /tmp/confirm_demo_with.log 2>&1; echo "exit $?"; tail -3 /tmp/confirm_demo_with.log)
git checkout -q -- . ; cmake --build _build > /tmp/confirm_build.log 2>&1
echo "--- demo WITHOUT change:"; (cd $d && timeout 900 bash ./demo.sh > /tmp/confirm_demo_without.log 2>&1; echo "exit $?"; tail -3 /tmp/confirm_demo_without.log)
git status --short | grep -v "^??" | head
