#!/usr/bin/env python3
"""keep_seed.py <worktree> <subdir> <seed-id> <property> <caught_by(comma list or NONE)> "<needs>" "<ran>"
copies an independently written, confirmed breaking change into /verif/seeded/<seed-id>/ with meta.json"""
import json, os, shutil, sys
wt, sub, sid, prop, caught, needs, ran = sys.argv[1:8]
src = os.path.join(wt, "out", sub)
dst = os.path.join("/verif/seeded", sid)
if os.path.exists(dst):
    shutil.rmtree(dst)
shutil.copytree(src, dst, ignore=shutil.ignore_patterns("*.o", "demo", "demo_bin", "*.out", "*.err", "*.vtu", "build*", "a.out"))
# drop large generated files
for root, _, files in os.walk(dst):
    for f in files:
        p = os.path.join(root, f)
        if os.path.getsize(p) > 300000:
            os.unlink(p)
meta = dict(id=sid, property=prop, origin="written by an independent sub-agent that saw only the property text and a scratch worktree",
            needs_to_manifest=needs, confirmed="suite: 134 pass + grid_fault_edge_limits (always fails); demo fails with the change, passes without (confirm_seed.sh)",
            what_i_ran=ran, caught_by=[] if caught == "NONE" else caught.split(","))
json.dump(meta, open(os.path.join(dst, "meta.json"), "w"), indent=1)
print("kept", dst, os.listdir(dst))
