// Simulated file layer.  The executable defines fopen/fopen64/fclose/read/
// write/writev so that libstdc++'s basic_filebuf (which the library and the
// tools use through std::ifstream/std::ofstream) binds to them.  Simulated
// files live in an in-memory map and are handed out as memfd descriptors;
// every other path is passed through to libc.
#ifndef SIM_SIMFS_H
#define SIM_SIMFS_H
#include <cstdint>
#include <map>
#include <string>
#include <vector>

namespace simfs
{
  enum FaultKind
  {
    F_TRUNCATE = 0, F_FLIP, F_ZERO_BLOCK, F_DUP_BLOCK, F_SHORT_READ, F_EINTR, F_EIO, F_OPEN_FAIL,
    F_CHANGE_BETWEEN_OPENS, F_SHORT_WRITE, F_ENOSPC, F_NKINDS
  };
  const char *fault_name(int kind);
  int fault_kind(const std::string &name);

  struct Fault
  {
    int kind = 0;
    std::string path;      // exact simulated path the fault applies to ("" = any)
    long a = 0;            // offset / n-th call / k / errno
    long b = 0;            // length / mask
    std::string bytes;     // replacement content for CHANGE_BETWEEN_OPENS
    unsigned long fired = 0;
  };

  struct Effect
  {
    std::string path;
    char mode;             // 'r' or 'w'
    bool opened;           // false: open refused
    bool closed;
    bool others_unfinished;// a sim thread other than the opener was still unfinished at open time
    std::string bytes;     // content committed at close (write) / delivered (read)
  };

  // the "disk"
  void reset();                                  // clears disk, faults, effects, open table
  void put(const std::string &path, const std::string &bytes);
  bool get(const std::string &path, std::string &bytes);
  bool exists(const std::string &path);
  std::vector<std::string> list();

  // fault plan of the current operation
  void set_faults(const std::vector<Fault> &faults);
  std::vector<Fault> take_faults();              // returns the plan with fired counters, clears it
  void clear_effects();
  std::vector<Effect> &effects();
  unsigned long calls();                         // number of intercepted calls so far
  unsigned open_descriptors();                   // simulated descriptors still open

  // applies the stored-corruption faults of a plan to bytes (used by reference formatters)
  std::string delivered_bytes(const std::string &path, const std::string &stored, const std::vector<Fault> &faults, int open_index);
}
#endif
