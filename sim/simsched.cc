// See sched.h.  NOTHING in this file may call malloc, memcpy, std::string or
// any other function the sanitizers intercept.
#include "simsched.h"
#include <pthread.h>
#include <errno.h>
#include <unistd.h>
#include <sys/syscall.h>
#include <linux/futex.h>

namespace sim
{
  namespace
  {
    const int MAXT = 160;
    const uint32_t MAXDEV = 1u << 16;

    struct Task
    {
      int state;        // 0 unused, 1 runnable, 2 blocked in join, 3 done
      int waiting_for;
      int futex;
      pthread_t th;
      void (*fn)(void *);
      void *arg;
      bool joined;
      long prio;
      int no_preempt;   // > 0 while the task initialises a function-local static (others would block on it for real)
    };

    Task tasks[MAXT];
    int ntasks = 0;
    int cur = 0;
    bool active = false;
    SchedParams prm;
    SchedStats st;
    uint32_t devbuf[2 * MAXDEV];
    uint32_t step = 0;
    uint32_t rr_count = 0;
    size_t script_pos = 0;
    uint32_t pct_change[8];
    long pct_low = 0;
    uint64_t rs[4];

    uint64_t preempt_left = 0;   // edges until the next forced decision point
    uint64_t prs = 0;            // generator of the slice lengths (independent of the strategy's draws)
    uint64_t next_slice()
    {
      // between half and one and a half times the mean
      prs ^= prs << 13;
      prs ^= prs >> 7;
      prs ^= prs << 17;
      const uint64_t m = prm.preempt;
      return m / 2 + 1 + prs % (m + 1);
    }

    unsigned shortcut_mask_v = 0;
    unsigned long fired[32];

    inline uint64_t rotl(uint64_t x, int k)
    {
      return (x << k) | (x >> (64 - k));
    }
    uint64_t rnext()
    {
      const uint64_t result = rotl(rs[1] * 5, 7) * 9;
      const uint64_t t = rs[1] << 17;
      rs[2] ^= rs[0];
      rs[3] ^= rs[1];
      rs[1] ^= rs[2];
      rs[0] ^= rs[3];
      rs[2] ^= t;
      rs[3] = rotl(rs[3], 45);
      return result;
    }
    void rseed(uint64_t x)
    {
      for (int i = 0; i < 4; ++i)
        {
          uint64_t z = (x += 0x9e3779b97f4a7c15ULL);
          z = (z ^ (z >> 30)) * 0xbf58476d1ce4e5b9ULL;
          z = (z ^ (z >> 27)) * 0x94d049bb133111ebULL;
          rs[i] = z ^ (z >> 31);
        }
    }
    double rreal()
    {
      return static_cast<double>(rnext() >> 11) * (1.0 / 9007199254740992.0);
    }

    void fwait(int *w)
    {
      while (__atomic_load_n(w, __ATOMIC_SEQ_CST) == 0)
        syscall(SYS_futex, w, FUTEX_WAIT, 0, nullptr, nullptr, 0);
      __atomic_store_n(w, 0, __ATOMIC_SEQ_CST);
    }
    void fwake(int *w)
    {
      __atomic_store_n(w, 1, __ATOMIC_SEQ_CST);
      syscall(SYS_futex, w, FUTEX_WAKE, 1, nullptr, nullptr, 0);
    }

    int default_choice(bool exclude_cur)
    {
      if (!exclude_cur && tasks[cur].state == 1)
        return cur;
      for (int i = 0; i < ntasks; ++i)
        if (tasks[i].state == 1 && !(exclude_cur && i == cur))
          return i;
      return -1;
    }

    // choose the task that continues; -1 if none is runnable
    int decide(int site, bool exclude_cur)
    {
      int runnable[MAXT];
      int n = 0;
      for (int i = 0; i < ntasks; ++i)
        if (tasks[i].state == 1 && !(exclude_cur && i == cur))
          runnable[n++] = i;
      ++st.points;
      if (site >= 0 && site < 8)
        ++st.site_count[site];
      const uint32_t this_step = step++;
      if (n == 0)
        return -1;
      const int def = default_choice(exclude_cur);
      int choice = def;
      int strategy = prm.strategy;
      if (this_step >= prm.step_cap)
        {
          st.cap_hit = true;
          strategy = S_SEQ;
        }
      if (n > 1)
        {
          ++st.decisions;
          const bool cur_ok = !exclude_cur && tasks[cur].state == 1;
          switch (strategy)
            {
              case S_RANDOM:
                choice = runnable[rnext() % static_cast<uint64_t>(n)];
                break;
              case S_BURST:
                if (cur_ok && rreal() < prm.p_continue)
                  choice = cur;
                else
                  choice = runnable[rnext() % static_cast<uint64_t>(n)];
                break;
              case S_RR:
              {
                ++rr_count;
                if (cur_ok && rr_count % static_cast<uint32_t>(prm.quantum < 1 ? 1 : prm.quantum) != 0)
                  choice = cur;
                else
                  {
                    choice = runnable[0];
                    for (int i = 0; i < n; ++i)
                      if (runnable[i] > cur)
                        {
                          choice = runnable[i];
                          break;
                        }
                  }
                break;
              }
              case S_PCT:
              {
                for (int c = 0; c < prm.pct_d && c < 8; ++c)
                  if (pct_change[c] == this_step && cur_ok)
                    tasks[cur].prio = --pct_low;
                choice = runnable[0];
                for (int i = 1; i < n; ++i)
                  if (tasks[runnable[i]].prio > tasks[choice].prio)
                    choice = runnable[i];
                break;
              }
              case S_STARVE:
              {
                int others[MAXT];
                int m = 0;
                for (int i = 0; i < n; ++i)
                  if (runnable[i] != prm.victim)
                    others[m++] = runnable[i];
                if (m == 0)
                  choice = prm.victim;
                else if (cur_ok && cur != prm.victim && rreal() < prm.p_continue)
                  choice = cur;
                else
                  choice = others[rnext() % static_cast<uint64_t>(m)];
                break;
              }
              case S_SCRIPT:
              {
                while (script_pos < prm.script_n && prm.script[2 * script_pos] < this_step)
                  ++script_pos;
                if (script_pos < prm.script_n && prm.script[2 * script_pos] == this_step)
                  {
                    const int want = static_cast<int>(prm.script[2 * script_pos + 1]);
                    for (int i = 0; i < n; ++i)
                      if (runnable[i] == want)
                        choice = want;
                  }
                break;
              }
              default:
                break;
            }
        }
      if (choice != def)
        {
          if (st.n_dev < MAXDEV)
            {
              devbuf[2 * st.n_dev] = this_step;
              devbuf[2 * st.n_dev + 1] = static_cast<uint32_t>(choice);
              ++st.n_dev;
            }
          else
            st.dev_overflow = true;
        }
      st.trace_hash = (st.trace_hash ^ static_cast<uint64_t>(site * 1000 + choice)) * 1099511628211ULL;
      return choice;
    }

    void switch_to(int next)
    {
      if (next == cur)
        return;
      const int me = cur;
      cur = next;
      ++st.switches;
      fwake(&tasks[next].futex);
      fwait(&tasks[me].futex);
    }

    void *trampoline(void *p)
    {
      Task *t = static_cast<Task *>(p);
      fwait(&t->futex);
      t->fn(t->arg);
      // task exit: wake joiners, hand the token on
      const int me = static_cast<int>(t - tasks);
      t->state = 3;
      for (int i = 0; i < ntasks; ++i)
        if (tasks[i].state == 2 && tasks[i].waiting_for == me)
          tasks[i].state = 1;
      int next = decide(SITE_EXIT, true);
      if (next < 0)
        {
          // nobody can run: wake the main task and let it report a deadlock
          st.deadlock = true;
          tasks[0].state = 1;
          next = 0;
        }
      cur = next;
      ++st.switches;
      fwake(&tasks[next].futex);
      return nullptr;
    }
  }

  void sched_begin(const SchedParams &p)
  {
    prm = p;
    st = SchedStats();
    st.dev = devbuf;
    st.preempt_on = p.preempt != 0;
    for (int i = 0; i < MAXT; ++i)
      {
        tasks[i].state = 0;
        tasks[i].futex = 0;
        tasks[i].joined = false;
        tasks[i].waiting_for = -1;
        tasks[i].prio = 0;
        tasks[i].no_preempt = 0;
      }
    prs = p.seed * 0x9e3779b97f4a7c15ULL + 0x2545F4914F6CDD1DULL;
    if (prs == 0)
      prs = 1;
    preempt_left = p.preempt ? next_slice() : 0;
    ntasks = 1;
    tasks[0].state = 1;
    tasks[0].joined = true;
    cur = 0;
    step = 0;
    rr_count = 0;
    script_pos = 0;
    pct_low = 0;
    rseed(p.seed);
    tasks[0].prio = static_cast<long>(rnext() % 1000000) + 1;
    for (int c = 0; c < 8; ++c)
      pct_change[c] = static_cast<uint32_t>(rnext() % static_cast<uint64_t>(p.pct_k < 1 ? 1 : p.pct_k));
    active = true;
  }

  SchedStats sched_end()
  {
    // run every task that the program under test left behind to completion
    for (int i = 1; i < ntasks; ++i)
      if (!tasks[i].joined)
        {
          ++st.unjoined;
          join(i);
        }
    st.tasks = static_cast<uint32_t>(ntasks);
    active = false;
    return st;
  }

  bool sched_active()
  {
    return active;
  }

  int current_task()
  {
    return cur;
  }

  int spawn(void (*fn)(void *), void *arg)
  {
    if (!active || ntasks >= MAXT)
      return -1;
    const int id = ntasks++;
    Task &t = tasks[id];
    t.state = 1;
    t.fn = fn;
    t.arg = arg;
    t.futex = 0;
    t.joined = false;
    t.waiting_for = -1;
    t.prio = static_cast<long>(rnext() % 1000000) + 1;
    t.no_preempt = 0;
    pthread_create(&t.th, nullptr, trampoline, &t);
    const int next = decide(SITE_SPAWN, false);
    if (next >= 0)
      switch_to(next);
    return id;
  }

  bool join(int id)
  {
    if (id <= 0 || id >= ntasks)
      return false;
    Task &t = tasks[id];
    if (t.joined)
      return true;
    bool ok = true;
    while (t.state != 3)
      {
        const int me = cur;
        tasks[me].state = 2;
        tasks[me].waiting_for = id;
        const int next = decide(SITE_JOIN, true);
        if (next < 0)
          {
            st.deadlock = true;
            tasks[me].state = 1;
            ok = false;
            break;
          }
        switch_to(next);
        tasks[me].state = 1;
        tasks[me].waiting_for = -1;
        if (st.deadlock)
          {
            ok = (t.state == 3);
            break;
          }
      }
    if (t.state == 3)
      {
        pthread_join(t.th, nullptr);
        t.joined = true;
      }
    return ok;
  }

  bool task_done(int id)
  {
    return id > 0 && id < ntasks && tasks[id].state == 3;
  }

  unsigned unfinished_others()
  {
    unsigned n = 0;
    for (int i = 0; i < ntasks; ++i)
      if (i != cur && tasks[i].state != 3 && tasks[i].state != 0)
        ++n;
    return n;
  }

  void yield_point(int site)
  {
    if (!active)
      return;
    const int next = decide(site, false);
    if (next >= 0)
      switch_to(next);
  }

  void set_shortcut_mask(unsigned mask)
  {
    shortcut_mask_v = mask;
  }
  unsigned shortcut_mask()
  {
    return shortcut_mask_v;
  }
  unsigned long shortcut_fired(int site)
  {
    return (site >= 0 && site < 32) ? __atomic_load_n(&fired[site], __ATOMIC_RELAXED) : 0;
  }
  void reset_shortcut_fired()
  {
    for (int i = 0; i < 32; ++i)
      fired[i] = 0;
  }
}

// Forced decision points. In builds that compile the code under test with -fsanitize-coverage=trace-pc-guard the
// compiler calls this function on every control-flow edge of that code (and of nothing else: not the C++ runtime,
// not the sanitizer, not this file). Only the task that holds the token executes, so a plain countdown is enough,
// and since the code under test is deterministic the points fall at the same edges in every execution of a scenario.
#ifdef GWB_SIM_PREEMPT
extern "C" void __sanitizer_cov_trace_pc_guard(uint32_t *)
{
  if (!sim::active || sim::prm.preempt == 0)
    return;
  ++sim::st.edges;
  if (--sim::preempt_left != 0)
    return;
  sim::preempt_left = sim::next_slice();
  if (sim::tasks[sim::cur].no_preempt > 0)
    return;
  ++sim::st.preemptions;
  sim::yield_point(sim::SITE_PREEMPT);
}
extern "C" void __sanitizer_cov_trace_pc_guard_init(uint32_t *start, uint32_t *stop)
{
  for (uint32_t *x = start; x < stop; ++x)
    *x = 1;
}

// A task that is parked while it initialises a function-local static would make every other task that reaches
// the same static block for real, outside the scheduler's control: no forced decision points inside such an
// initialisation (the linker routes the guard calls of the code under test here when the build asks for it).
extern "C" int __real___cxa_guard_acquire(void *);
extern "C" void __real___cxa_guard_release(void *);
extern "C" void __real___cxa_guard_abort(void *);
extern "C" int __wrap___cxa_guard_acquire(void *g)
{
  const int r = __real___cxa_guard_acquire(g);
  if (r != 0 && sim::active)
    ++sim::tasks[sim::cur].no_preempt;
  return r;
}
extern "C" void __wrap___cxa_guard_release(void *g)
{
  if (sim::active && sim::tasks[sim::cur].no_preempt > 0)
    --sim::tasks[sim::cur].no_preempt;
  __real___cxa_guard_release(g);
}
extern "C" void __wrap___cxa_guard_abort(void *g)
{
  if (sim::active && sim::tasks[sim::cur].no_preempt > 0)
    --sim::tasks[sim::cur].no_preempt;
  __real___cxa_guard_abort(g);
}
#endif

// A mutex of the code under test (the pinned tree has none, a change may bring one): a task that was switched out
// inside a critical section keeps the mutex while it is parked, and a task that then blocked in the real
// pthread_mutex_lock would stop the whole simulation. The linker routes the lock calls of the code under test
// here: try, and while the mutex is taken let the scheduler run somebody else.
extern "C" int __real_pthread_mutex_lock(pthread_mutex_t *);
extern "C" int __wrap_pthread_mutex_lock(pthread_mutex_t *m)
{
  if (!sim::active)
    return __real_pthread_mutex_lock(m);
  for (unsigned spins = 0;; ++spins)
    {
      const int r = pthread_mutex_trylock(m);
      if (r != EBUSY)
        return r;
      if (sim::unfinished_others() == 0 || spins > 1000000)
        return __real_pthread_mutex_lock(m); // nobody left who could release it: let it block for real (a deadlock of the code under test)
      const int next = sim::decide(sim::SITE_LOCK, true);
      if (next >= 0)
        sim::switch_to(next);
    }
}

// the two symbols the library hooks (include/world_builder/verif_hooks.h) call
extern "C" void gwb_verif_point(int site)
{
  sim::yield_point(site);
}

extern "C" int gwb_verif_shortcut_disabled(int site)
{
  if (site < 0 || site >= 32)
    return 0;
  if ((sim::shortcut_mask() >> site) & 1u)
    {
      __atomic_fetch_add(&sim::fired[site], 1ul, __ATOMIC_RELAXED);
      return 1;
    }
  return 0;
}
