// Allocation faults: the global operator new family is replaced; while an
// operation is armed the n-th allocation throws std::bad_alloc (once).
// malloc itself is never failed (rapidjson's CrtAllocator does not check it).
#include "sim.h"
#include <cstdlib>
#include <new>

namespace
{
  bool armed = false;
  long countdown = 0;
  unsigned long count = 0;
  bool fired = false;

  // Address recycling (plain flavour only, and only while a scenario asks for it): every block carries a small
  // header with its size, and a freed block is handed to the next request of the same size class, most recently
  // freed first. A world that is destroyed and built again from a file of the same shape then finds its objects
  // at addresses that objects of its predecessor had - the situation in which state keyed by an address, or left
  // behind in memory, shows. glibc does this now and then; here the scenario decides.
#ifdef GWB_SIM_RECYCLE
  const std::size_t HEADER = 16, MAX_RECYCLED = 8192, CLASSES = MAX_RECYCLED / 16 + 1;
  struct FreeBlock
  {
    FreeBlock *next;
  };
  FreeBlock *free_list[CLASSES];
  int recycle = 0;
  unsigned long recycled = 0;
  volatile char list_lock = 0;
  inline void lock()
  {
    while (__atomic_exchange_n(&list_lock, 1, __ATOMIC_ACQUIRE))
      {}
  }
  inline void unlock()
  {
    __atomic_store_n(&list_lock, 0, __ATOMIC_RELEASE);
  }
  inline void *raw_alloc(std::size_t n)
  {
    const std::size_t cls = (n + 15) / 16;
    if (recycle && cls < CLASSES)
      {
        lock();
        FreeBlock *b = free_list[cls];
        if (b != nullptr)
          {
            free_list[cls] = b->next;
            ++recycled;
          }
        unlock();
        if (b != nullptr)
          return b; // the header in front of it is still valid
      }
    char *p = static_cast<char *>(std::malloc(HEADER + (cls ? cls * 16 : 16)));
    if (p == nullptr)
      return nullptr;
    *reinterpret_cast<std::size_t *>(p) = cls;
    return p + HEADER;
  }
  inline void raw_free(void *q)
  {
    if (q == nullptr)
      return;
    char *p = static_cast<char *>(q) - HEADER;
    const std::size_t cls = *reinterpret_cast<std::size_t *>(p);
    if (recycle && cls < CLASSES)
      {
        FreeBlock *b = static_cast<FreeBlock *>(q);
        lock();
        b->next = free_list[cls];
        free_list[cls] = b;
        unlock();
        return;
      }
    std::free(p);
  }
  void flush_lists()
  {
    lock();
    for (std::size_t c = 0; c < CLASSES; ++c)
      while (free_list[c] != nullptr)
        {
          FreeBlock *b = free_list[c];
          free_list[c] = b->next;
          std::free(reinterpret_cast<char *>(b) - HEADER);
        }
    unlock();
  }
#else
  inline void *raw_alloc(std::size_t n)
  {
    return std::malloc(n ? n : 1);
  }
  inline void raw_free(void *p)
  {
    std::free(p);
  }
#endif

  inline void *do_alloc(std::size_t n)
  {
    if (armed)
      {
        ++count;
        if (countdown > 0 && --countdown == 0)
          {
            fired = true;
            throw std::bad_alloc();
          }
      }
    void *p = raw_alloc(n);
    if (p == nullptr)
      throw std::bad_alloc();
    return p;
  }
}

namespace sim
{
  void alloc_arm(long nth)
  {
    countdown = nth;
    count = 0;
    fired = false;
    armed = true;
  }
  void alloc_disarm()
  {
    armed = false;
    countdown = 0;
  }
  unsigned long alloc_count()
  {
    return count;
  }
  bool alloc_fired()
  {
    return fired;
  }
  void alloc_recycle(int mode)
  {
#ifdef GWB_SIM_RECYCLE
    recycle = mode;
    if (mode == 0)
      flush_lists();
#else
    (void) mode;
#endif
  }
  unsigned long alloc_recycled()
  {
#ifdef GWB_SIM_RECYCLE
    return recycled;
#else
    return 0;
#endif
  }
}

// ThreadSanitizer's runtime defines the operator new family itself (strong
// symbols); allocation faults are not used in that flavour.
#if defined(__has_feature)
#if __has_feature(thread_sanitizer)
#define SIM_NO_NEW_REPLACEMENT 1
#endif
#endif
#ifndef SIM_NO_NEW_REPLACEMENT
void *operator new(std::size_t n)
{
  return do_alloc(n);
}
void *operator new[](std::size_t n)
{
  return do_alloc(n);
}
void *operator new(std::size_t n, const std::nothrow_t &) noexcept
{
  try
    {
      return do_alloc(n);
    }
  catch (...)
    {
      return nullptr;
    }
}
void *operator new[](std::size_t n, const std::nothrow_t &) noexcept
{
  try
    {
      return do_alloc(n);
    }
  catch (...)
    {
      return nullptr;
    }
}
void operator delete(void *p) noexcept
{
  raw_free(p);
}
void operator delete[](void *p) noexcept
{
  raw_free(p);
}
void operator delete(void *p, std::size_t) noexcept
{
  raw_free(p);
}
void operator delete[](void *p, std::size_t) noexcept
{
  raw_free(p);
}
void operator delete(void *p, const std::nothrow_t &) noexcept
{
  raw_free(p);
}
void operator delete[](void *p, const std::nothrow_t &) noexcept
{
  raw_free(p);
}
#endif
