// Allocation faults: the global operator new family is replaced; while an
// operation is armed the n-th allocation throws std::bad_alloc (once).
// malloc itself is never failed (rapidjson's CrtAllocator does not check it).
#include "sim.h"
#include <cstdlib>
#include <new>

namespace
{
  bool armed = false;
  long countdown = 0;
  unsigned long count = 0;
  bool fired = false;

  inline void *do_alloc(std::size_t n)
  {
    if (armed)
      {
        ++count;
        if (countdown > 0 && --countdown == 0)
          {
            fired = true;
            throw std::bad_alloc();
          }
      }
    void *p = std::malloc(n ? n : 1);
    if (p == nullptr)
      throw std::bad_alloc();
    return p;
  }
}

namespace sim
{
  void alloc_arm(long nth)
  {
    countdown = nth;
    count = 0;
    fired = false;
    armed = true;
  }
  void alloc_disarm()
  {
    armed = false;
    countdown = 0;
  }
  unsigned long alloc_count()
  {
    return count;
  }
  bool alloc_fired()
  {
    return fired;
  }
}

// ThreadSanitizer's runtime defines the operator new family itself (strong
// symbols); allocation faults are not used in that flavour.
#if defined(__has_feature)
#if __has_feature(thread_sanitizer)
#define SIM_NO_NEW_REPLACEMENT 1
#endif
#endif
#ifndef SIM_NO_NEW_REPLACEMENT
void *operator new(std::size_t n)
{
  return do_alloc(n);
}
void *operator new[](std::size_t n)
{
  return do_alloc(n);
}
void *operator new(std::size_t n, const std::nothrow_t &) noexcept
{
  try
    {
      return do_alloc(n);
    }
  catch (...)
    {
      return nullptr;
    }
}
void *operator new[](std::size_t n, const std::nothrow_t &) noexcept
{
  try
    {
      return do_alloc(n);
    }
  catch (...)
    {
      return nullptr;
    }
}
void operator delete(void *p) noexcept
{
  std::free(p);
}
void operator delete[](void *p) noexcept
{
  std::free(p);
}
void operator delete(void *p, std::size_t) noexcept
{
  std::free(p);
}
void operator delete[](void *p, std::size_t) noexcept
{
  std::free(p);
}
void operator delete(void *p, const std::nothrow_t &) noexcept
{
  std::free(p);
}
void operator delete[](void *p, const std::nothrow_t &) noexcept
{
  std::free(p);
}
#endif
