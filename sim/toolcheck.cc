// Oracles for the two command line tools (reference formatter for gwb-dat,
// reference mesh and VTU reader for gwb-grid).
#include "sim.h"

namespace sim
{
  void check_dat(const Scenario &, const Op &, const Resp &, RunResult &, int)
  {
  }
  void check_grid(const Scenario &, const Op &, const Resp &, RunResult &, int)
  {
  }
}
