// Oracles for the two command line tools: a reference formatter for gwb-dat
// (C17) and a VTU reader + reference mesh + reference tag filter for gwb-grid
// (C18).  Nothing here shares code with the tools; the library is only used
// through World's public interface.
#include "sim.h"

#include "world_builder/world.h"
#include "world_builder/utilities.h"
#include "world_builder/consts.h"

#include <algorithm>
#include <cmath>
#include <cstring>
#include <iostream>
#include <memory>
#include <set>
#include <sstream>

namespace sim
{
  namespace
  {
    void add(RunResult &res, const std::string &cls, const std::string &site, const std::string &detail, int op_index)
    {
      Violation v;
      v.cls = cls;
      v.site = site;
      v.detail = detail;
      v.op_index = op_index;
      res.violations.push_back(v);
    }

    std::vector<std::string> split_ws(const std::string &s)
    {
      std::vector<std::string> t;
      std::istringstream is(s);
      std::string w;
      while (is >> w)
        t.push_back(w);
      return t;
    }

    std::vector<std::string> split_lines(const std::string &s)
    {
      std::vector<std::string> l;
      std::string cur;
      for (char c : s)
        {
          if (c == '\n')
            {
              l.push_back(cur);
              cur.clear();
            }
          else
            cur.push_back(c);
        }
      if (!cur.empty())
        l.push_back(cur);
      return l;
    }

    bool to_double(const std::string &s, double &v)
    {
      // the documented format: a plain decimal or scientific number
      if (s.empty())
        return false;
      char *end = nullptr;
      v = std::strtod(s.c_str(), &end);
      if (end == s.c_str() || *end != '\0')
        return false;
      // strtod accepts hex floats, inf and nan; the tools' documented input does not
      for (char c : s)
        if (!(std::isdigit(static_cast<unsigned char>(c)) || c == '+' || c == '-' || c == '.' || c == 'e' || c == 'E'))
          return false;
      return std::isfinite(v); // a number that overflows a double is not a value the tools can work with
    }

    bool to_double_loose(const std::string &s, double &v)
    {
      char *end = nullptr;
      v = std::strtod(s.c_str(), &end);
      return end != s.c_str() && *end == '\0';
    }

    bool to_uint(const std::string &s, unsigned long &v)
    {
      if (s.empty())
        return false;
      for (char c : s)
        if (!std::isdigit(static_cast<unsigned char>(c)))
          return false;
      v = std::strtoul(s.c_str(), nullptr, 10);
      return true;
    }

    std::string fmt(double v)
    {
      std::ostringstream o; // default formatting, as operator<<(double) on a fresh stream
      o << v;
      return o.str();
    }

    bool has_fault(const Op &op, int kind)
    {
      for (const auto &f : op.faults)
        if (f.kind == kind)
          return true;
      return false;
    }
  }

  // =================================================================== gwb-dat
  void check_dat(const Scenario &s, const Op &op, const Resp &r, RunResult &res, int op_index)
  {
    const std::string P = s.property;
    if (op.argv.size() < 3 || r.status == 3)
      return;
    if (has_fault(op, simfs::F_EIO))
      {
        res.counters["dat_eio_recorded"]++; // the tool silently processes the prefix; the property is silent about device errors
        return;
      }
    auto wf = s.files.find(op.argv[1]);
    auto df = s.files.find(op.argv[2]);
    if (wf == s.files.end() || df == s.files.end())
      return;
    const std::string delivered = simfs::delivered_bytes(op.argv[2], df->second, op.faults, 0);

    // ---- the documented grammar
    struct Row
    {
      std::vector<std::string> tok;
      size_t line;
    };
    std::vector<Row> rows;
    unsigned long dim = 3, compositions = 0, grain_compositions = 0, n_grains = 0;
    bool convert_spherical = false;
    bool option_error = false;
    const auto lines = split_lines(delivered);
    for (size_t li = 0; li < lines.size(); ++li)
      {
        std::vector<std::string> tok = split_ws(lines[li]);
        for (auto &t : tok)
          t.erase(std::remove(t.begin(), t.end(), ','), t.end());
        if (tok.empty())
          continue;
        if (tok[0] == "#")
          {
            // option lines: "# key [words] = value"; anything else after '#' is a comment
            auto is = [&](std::initializer_list<const char *> words) -> bool
            {
              size_t k = 1;
              for (const char *w : words)
                {
                  if (k >= tok.size() || tok[k] != w)
                    return false;
                  ++k;
                }
              return k < tok.size() && tok[k] == "=";
            };
            auto value = [&](size_t nwords) -> std::string
            {
              return (nwords + 2 < tok.size()) ? tok[nwords + 2] : std::string();
            };
            unsigned long v = 0;
            if (is({"dim"}))
              {
                if (to_uint(value(1), v)) dim = v;
                else option_error = true;
              }
            else if (is({"compositions"}))
              {
                if (to_uint(value(1), v)) compositions = v;
                else option_error = true;
              }
            else if (is({"grain", "compositions"}))
              {
                if (to_uint(value(2), v)) grain_compositions = v;
                else option_error = true;
              }
            else if (is({"number", "of", "grains"}))
              {
                if (to_uint(value(3), v)) n_grains = v;
                else option_error = true;
              }
            else if (is({"convert", "spherical"}))
              {
                if (value(2) == "true")
                  convert_spherical = true;
              }
            continue;
          }
        rows.push_back({tok, li + 1});
      }
    if (option_error)
      {
        // an option line without a usable value: the tool must fail visibly (or ignore the line); nothing to compare
        res.counters["dat_option_error"]++;
        if (r.status == 0 && r.rc == 0)
          res.counters["dat_option_error_accepted"]++;
        return;
      }
    if (compositions > 64 || grain_compositions > 16 || n_grains > 64)
      return;
    const std::vector<std::string> out_lines = split_lines(r.out);
    if (!(dim == 2 || dim == 3))
      {
        // documented: a message, no table
        if (r.status == 0 && r.out.find("can only be run in 2d and 3d") == std::string::npos)
          add(res, P + "/dim", "dim-other", "dim = " + std::to_string(dim) + " was not refused", op_index);
        return;
      }
    if (dim == 2 && convert_spherical)
      {
        if (r.status == 0)
          add(res, P + "/silently-misread", "convert-2d", "'convert spherical' with dim = 2 must be refused, the tool returned normally", op_index);
        return;
      }

    // ---- the reference table
    std::vector<std::string> header;
    if (dim == 2)
      header = {"x", "z", "d", "T", "vx", "vz"};
    else
      header = {"x", "y", "z", "d", "T", "vx", "vy", "vz"};
    for (unsigned long c = 0; c < compositions; ++c)
      header.push_back("c" + std::to_string(c));
    for (unsigned long gc = 0; gc < grain_compositions; ++gc)
      for (unsigned long g = 0; g < n_grains; ++g)
        {
          header.push_back("gs" + std::to_string(gc) + "-" + std::to_string(g));
          for (int a = 0; a < 3; ++a)
            for (int b = 0; b < 3; ++b)
              header.push_back("gm" + std::to_string(gc) + "-" + std::to_string(g) + "[" + std::to_string(a) + ":" + std::to_string(b) + "]");
        }
    header.push_back("tag");

    std::vector<Prop> props;
    props.push_back(Prop{{1, 0, 0}});
    props.push_back(Prop{{5, 0, 0}});
    for (unsigned long c = 0; c < compositions; ++c)
      props.push_back(Prop{{2, static_cast<unsigned>(c), 0}});
    for (unsigned long gc = 0; gc < grain_compositions; ++gc)
      props.push_back(Prop{{3, static_cast<unsigned>(gc), static_cast<unsigned>(n_grains)}});
    props.push_back(Prop{{4, 0, 0}});

    std::unique_ptr<WorldBuilder::World> world;
    try
      {
        simfs::set_faults({});
        world.reset(new WorldBuilder::World(op.argv[1], false, "", 1, true));
      }
    catch (std::exception &)
      {
        if (r.status == 0)
          add(res, P + "/silently-misread", "world", "the world file cannot be built but the tool returned normally", op_index);
        return;
      }

    // expected rows (strings by header name) until the first malformed row
    std::vector<std::vector<std::string>> expected;
    std::vector<std::vector<double>> raw_values;
    std::vector<std::vector<std::string>> raw_tokens;
    bool malformed = false;
    size_t malformed_line = 0;
    for (const auto &row : rows)
      {
        bool ok = row.tok.size() == dim + 1;
        std::vector<double> num(row.tok.size(), 0.0);
        for (size_t k = 0; ok && k < row.tok.size(); ++k)
          ok = to_double(row.tok[k], num[k]);
        std::vector<double> v;
        if (ok)
          {
            try
              {
                if (dim == 2)
                  v = world->properties(std::array<double, 2> {{num[0], num[1]}}, num[2], props);
                else
                  {
                    std::array<double, 3> p = {{num[0], num[1], num[2]}};
                    if (convert_spherical)
                      {
                        // (radius, longitude, latitude in degrees) through the library's own public conversion: any
                        // other correct formula differs in the last bits, which changes answers on feature boundaries
                        p = {{num[0], num[1] *(WorldBuilder::Consts::PI/180.), num[2] *(WorldBuilder::Consts::PI/180.)}};
                        p = WorldBuilder::Utilities::spherical_to_cartesian_coordinates(p).get_array();
                      }
                    v = world->properties(p, num[3], props);
                  }
              }
            catch (std::exception &)
              {
                ok = false; // the library refuses this point: the tool has to fail visibly here as well
              }
          }
        if (!ok)
          {
            malformed = true;
            malformed_line = row.line;
            break;
          }
        raw_values.push_back(v);
        raw_tokens.push_back(row.tok);
        std::vector<std::string> e(row.tok.begin(), row.tok.end()); // coordinates and depth are echoed verbatim
        e.push_back(fmt(v[0]));
        e.push_back(fmt(v[1]));
        if (dim == 3)
          {
            e.push_back(fmt(v[2]));
            e.push_back(fmt(v[3]));
          }
        else
          e.push_back(fmt(v[2]));
        size_t off = 4;
        for (unsigned long c = 0; c < compositions; ++c)
          e.push_back(fmt(v[off++]));
        for (unsigned long gc = 0; gc < grain_compositions; ++gc)
          {
            for (unsigned long g = 0; g < n_grains; ++g)
              {
                e.push_back(fmt(v[off + g]));
                for (int k = 0; k < 9; ++k)
                  e.push_back(fmt(v[off + n_grains + 9 * g + static_cast<unsigned long>(k)]));
              }
            off += 10 * n_grains;
          }
        e.push_back(fmt(v[off]));
        expected.push_back(e);
      }

    // ---- what the tool printed
    if (out_lines.empty())
      {
        if (r.status == 0)
          add(res, P + "/column", "no-header", "no header line was printed", op_index);
        return;
      }
    std::vector<std::string> got_header = split_ws(out_lines[0]);
    if (!got_header.empty() && got_header[0] == "#")
      got_header.erase(got_header.begin());
    std::vector<std::vector<std::string>> got;
    for (size_t i = 1; i < out_lines.size(); ++i)
      {
        std::vector<std::string> t = split_ws(out_lines[i]);
        if (!t.empty())
          got.push_back(t);
      }
    res.counters["evaluations"] += static_cast<long>(expected.size());
    res.counters["dat_rows_compared"] += static_cast<long>(expected.size());
    if (!expected.empty())
      res.counters["nontrivial"] = 1;

    // malformed rows must be reported, never silently misread
    if (malformed)
      {
        res.counters["dat_malformed_inputs"]++;
        if (r.status == 0 && r.rc == 0)
          {
            add(res, P + "/silently-misread", "malformed-row",
                "line " + std::to_string(malformed_line) + " of the data file is malformed (or is refused by the library) but gwb-dat returned normally and printed "
                + std::to_string(got.size()) + " rows", op_index);
            return;
          }
        // the tool echoes the coordinates before it converts them, so the failing row may appear as a torn line
        if (got.size() == expected.size() + 1 && got.back().size() <= dim + 1)
          got.pop_back();
        if (got.size() > expected.size())
          {
            add(res, P + "/silently-misread", "rows-after-malformed", "rows were printed at or after the malformed line " + std::to_string(malformed_line), op_index);
            return;
          }
      }
    else if (r.status != 0)
      {
        add(res, P + "/rejected-valid", "wellformed", "every row is well formed but gwb-dat failed: " + r.what.substr(0, 300), op_index);
        return;
      }

    // ---- compare, first as documented, then under the listed known defects
    auto compare = [&](const std::vector<std::string> &hdr, const std::vector<std::vector<std::string>> &exp, std::string &why, std::string &site) -> bool
    {
      if (got_header != hdr)
        {
          std::string a, b;
          for (const auto &x : got_header) a += x + " ";
          for (const auto &x : hdr) b += x + " ";
          why = "header is [" + a + "] but the columns are [" + b + "]";
          site = "header";
          return false;
        }
      if (got.size() != exp.size())
        {
          why = std::to_string(got.size()) + " rows printed, " + std::to_string(exp.size()) + " expected";
          site = "row-count";
          return false;
        }
      for (size_t i = 0; i < exp.size(); ++i)
        {
          if (got[i].size() != exp[i].size())
            {
              why = "row " + std::to_string(i) + " has " + std::to_string(got[i].size()) + " values for " + std::to_string(exp[i].size()) + " columns";
              site = "row-width";
              return false;
            }
          for (size_t k = 0; k < exp[i].size(); ++k)
            if (got[i][k] != exp[i][k])
              {
                // the same number printed with other (not fewer than six) digits is still the library's value
                double a = 0, b = 0;
                if (k > dim && to_double_loose(got[i][k], a) && to_double_loose(exp[i][k], b)
                    && (a == b || std::fabs(a - b) <= 1e-5 * std::max(std::fabs(a), std::fabs(b))))
                  continue;
                why = "row " + std::to_string(i) + " column '" + (k < hdr.size() ? hdr[k] : "?") + "' prints " + got[i][k] + " but the library's value is " + exp[i][k];
                site = "column:" + std::string(k < hdr.size() ? hdr[k].substr(0, 2) : "?");
                return false;
              }
        }
      return true;
    };
    std::string why, site;
    if (compare(header, expected, why, site))
      return;
    // known defect (dim = 3): the header announces a column "g" for which no value is printed
    if (dim == 3)
      {
        std::vector<std::string> h2 = header;
        h2.insert(h2.begin() + 4, "g");
        // values still line up with the documented columns; only the header has the extra name
        std::string w2, s2;
        std::vector<std::string> saved = got_header;
        if (got_header == h2)
          {
            got_header = header;
            const bool rest_ok = compare(header, expected, w2, s2);
            got_header = saved;
            if (rest_ok)
              {
                add(res, P + "/column", "dim3:header-extra-g", "dim = 3: the header lists a column 'g' (x y z d g T ...) for which no value is printed; all values match the documented columns", op_index);
                return;
              }
            why = w2;
            site = s2;
          }
      }
    // known defect (dim = 2): compositions are read from slot 3+c although the velocity block occupies 1..3,
    // so every composition and grain column is shifted by one slot and the last composition is never printed
    if (dim == 2 && (compositions > 0 || grain_compositions * n_grains > 0))
      {
        std::vector<std::vector<std::string>> shifted;
        for (size_t ri = 0; ri < raw_values.size(); ++ri)
          {
            const std::vector<double> &o = raw_values[ri];
            std::vector<std::string> t(raw_tokens[ri].begin(), raw_tokens[ri].end());
            t.push_back(fmt(o[0]));
            t.push_back(fmt(o[1]));
            t.push_back(fmt(o[2]));
            for (unsigned long c = 0; c < compositions; ++c)
              t.push_back(fmt(o[3 + c]));
            for (unsigned long gc = 0; gc < grain_compositions; ++gc)
              {
                const size_t start = 3 + compositions + gc * n_grains * 10;
                for (unsigned long g = 0; g < n_grains; ++g)
                  {
                    t.push_back(fmt(o[start + g]));
                    for (unsigned long k = 0; k < 9; ++k)
                      t.push_back(fmt(o[start + n_grains + g * 9 + k]));
                  }
              }
            t.push_back(fmt(o.back()));
            shifted.push_back(t);
          }
        std::string w2, s2;
        if (compare(header, shifted, w2, s2))
          {
            add(res, P + "/column", "dim2:composition-shift", "dim = 2: composition and grain columns are printed one slot early (c0 shows the zero third velocity component, the last requested value is dropped)", op_index);
            return;
          }
      }
    add(res, P + "/column", site, why, op_index);
  }

  // =================================================================== gwb-grid
  namespace
  {
    struct Array
    {
      std::string name, type, format;
      int ncomp = 1;
      std::vector<double> v;
      bool ok = false;
    };

    struct Vtu
    {
      bool ok = false;
      bool appended = false;
      bool exact = false; // values are stored as exact doubles
      std::string error;
      long npoints = -1, ncells = -1;
      std::vector<Array> point_data;
      Array points, connectivity, offsets, types;
    };

    std::string attr(const std::string &tag, const std::string &name)
    {
      const std::string key = name + "=\"";
      size_t p = 0;
      while ((p = tag.find(key, p)) != std::string::npos)
        {
          if (p == 0 || tag[p - 1] == ' ' || tag[p - 1] == '\t' || tag[p - 1] == '\n')
            {
              const size_t b = p + key.size();
              const size_t e = tag.find('"', b);
              if (e == std::string::npos)
                return "";
              return tag.substr(b, e - b);
            }
          ++p;
        }
      return "";
    }

    bool b64_decode(const std::string &in, std::string &out)
    {
      static int T[256];
      static bool init = false;
      if (!init)
        {
          for (int i = 0; i < 256; ++i) T[i] = -1;
          const char *al = "ABCDEFGHIJKLMNOPQRSTUVWXYZabcdefghijklmnopqrstuvwxyz0123456789+/";
          for (int i = 0; i < 64; ++i) T[static_cast<unsigned char>(al[i])] = i;
          init = true;
        }
      out.clear();
      unsigned val = 0;
      int bits = -8;
      for (unsigned char c : in)
        {
          if (c == '=')
            break;
          if (T[c] < 0)
            return false;
          val = (val << 6) | static_cast<unsigned>(T[c]);
          bits += 6;
          if (bits >= 0)
            {
              out.push_back(static_cast<char>((val >> bits) & 0xff));
              bits -= 8;
            }
        }
      return true;
    }

    bool payload_to_values(const std::string &payload, Array &a, std::string &error)
    {
      if (a.type == "Float64")
        {
          a.v.resize(payload.size() / 8);
          if (!a.v.empty())
            std::memcpy(a.v.data(), payload.data(), a.v.size() * 8);
        }
      else if (a.type == "Int64")
        {
          std::vector<int64_t> t(payload.size() / 8);
          if (!t.empty())
            std::memcpy(t.data(), payload.data(), t.size() * 8);
          a.v.assign(t.begin(), t.end());
        }
      else if (a.type == "Int8")
        {
          for (char c : payload)
            a.v.push_back(static_cast<double>(static_cast<signed char>(c)));
        }
      else
        {
          error = "array '" + a.name + "': unexpected type " + a.type;
          return false;
        }
      a.ok = true;
      return true;
    }

    // appended data: every array is [UInt64 byte count][payload], raw or base64-encoded as one unit, at 'offset'
    bool decode_appended(const std::string &tag, const std::string &blob, const std::string &encoding, Array &a, std::string &error)
    {
      a.name = attr(tag, "Name");
      a.type = attr(tag, "type");
      a.format = attr(tag, "format");
      const std::string nc = attr(tag, "NumberOfComponents");
      a.ncomp = nc.empty() ? 1 : std::atoi(nc.c_str());
      const std::string off_s = attr(tag, "offset");
      if (a.format != "appended" || off_s.empty())
        {
          error = "array '" + a.name + "': expected format=\"appended\" with an offset";
          return false;
        }
      const size_t off = static_cast<size_t>(std::atoll(off_s.c_str()));
      std::string payload;
      if (encoding == "raw")
        {
          if (off + 8 > blob.size())
            {
              error = "array '" + a.name + "': offset beyond the appended data";
              return false;
            }
          uint64_t nbytes = 0;
          std::memcpy(&nbytes, blob.data() + off, 8);
          if (off + 8 + nbytes > blob.size())
            {
              error = "array '" + a.name + "': announces " + std::to_string(nbytes) + " bytes beyond the appended data";
              return false;
            }
          payload = blob.substr(off + 8, nbytes);
        }
      else
        {
          if (off + 12 > blob.size())
            {
              error = "array '" + a.name + "': offset beyond the appended data";
              return false;
            }
          std::string head;
          if (!b64_decode(blob.substr(off, 12), head) || head.size() < 8)
            {
              error = "array '" + a.name + "': appended header is not base64";
              return false;
            }
          uint64_t nbytes = 0;
          std::memcpy(&nbytes, head.data(), 8);
          const size_t enc = 4 * ((8 + nbytes + 2) / 3);
          std::string all;
          if (off + enc > blob.size() || !b64_decode(blob.substr(off, enc), all) || all.size() != 8 + nbytes)
            {
              error = "array '" + a.name + "': appended payload does not decode to the announced " + std::to_string(nbytes) + " bytes";
              return false;
            }
          payload = all.substr(8);
        }
      return payload_to_values(payload, a, error);
    }

    bool decode_array(const std::string &tag, const std::string &body, Array &a, std::string &error)
    {
      a.name = attr(tag, "Name");
      a.type = attr(tag, "type");
      a.format = attr(tag, "format");
      const std::string nc = attr(tag, "NumberOfComponents");
      a.ncomp = nc.empty() ? 1 : std::atoi(nc.c_str());
      if (a.format == "ascii")
        {
          std::istringstream is(body);
          std::string w;
          while (is >> w)
            {
              char *end = nullptr;
              const double x = std::strtod(w.c_str(), &end);
              if (end == w.c_str() || *end != '\0')
                {
                  error = "array '" + a.name + "': token '" + w.substr(0, 20) + "' is not a number";
                  return false;
                }
              a.v.push_back(x);
            }
          a.ok = true;
          return true;
        }
      if (a.format == "binary")
        {
          std::string text;
          for (char c : body)
            if (!std::isspace(static_cast<unsigned char>(c)))
              text.push_back(c);
          if (text.size() < 12)
            {
              error = "array '" + a.name + "': binary payload too short";
              return false;
            }
          std::string hdr, payload;
          if (!b64_decode(text.substr(0, 12), hdr) || hdr.size() != 8 || !b64_decode(text.substr(12), payload))
            {
              error = "array '" + a.name + "': not base64";
              return false;
            }
          uint64_t nbytes = 0;
          std::memcpy(&nbytes, hdr.data(), 8);
          if (nbytes != payload.size())
            {
              error = "array '" + a.name + "': header announces " + std::to_string(nbytes) + " bytes, payload has " + std::to_string(payload.size());
              return false;
            }
          if (a.type == "Float64")
            {
              a.v.resize(payload.size() / 8);
              if (!a.v.empty())
                std::memcpy(a.v.data(), payload.data(), a.v.size() * 8);
            }
          else if (a.type == "Int64")
            {
              std::vector<int64_t> t(payload.size() / 8);
              if (!t.empty())
                std::memcpy(t.data(), payload.data(), t.size() * 8);
              a.v.assign(t.begin(), t.end());
            }
          else if (a.type == "Int8")
            {
              for (char c : payload)
                a.v.push_back(static_cast<double>(static_cast<signed char>(c)));
            }
          else
            {
              error = "array '" + a.name + "': unexpected type " + a.type;
              return false;
            }
          a.ok = true;
          return true;
        }
      error = "array '" + a.name + "': unexpected format '" + a.format + "'";
      return false;
    }

    Vtu parse_vtu(const std::string &t)
    {
      Vtu v;
      if (t.compare(0, 5, "<?xml") != 0)
        {
          v.error = "does not start with an XML declaration";
          return v;
        }
      const size_t vf = t.find("<VTKFile");
      if (vf == std::string::npos || t.find("</VTKFile>") == std::string::npos)
        {
          v.error = "no VTKFile element";
          return v;
        }
      const std::string vtag = t.substr(vf, t.find('>', vf) - vf);
      if (attr(vtag, "type") != "UnstructuredGrid" || attr(vtag, "byte_order") != "LittleEndian")
        {
          v.error = "VTKFile attributes";
          return v;
        }
      const size_t pc = t.find("<Piece");
      if (pc == std::string::npos)
        {
          v.error = "no Piece element";
          return v;
        }
      const std::string ptag = t.substr(pc, t.find('>', pc) - pc);
      v.npoints = std::atol(attr(ptag, "NumberOfPoints").c_str());
      v.ncells = std::atol(attr(ptag, "NumberOfCells").c_str());
      if (attr(ptag, "NumberOfPoints").empty() || attr(ptag, "NumberOfCells").empty())
        {
          v.error = "Piece lacks NumberOfPoints/NumberOfCells";
          return v;
        }
      std::string blob, encoding;
      bool have_blob = false;
      const size_t ad = t.find("<AppendedData");
      if (ad != std::string::npos)
        {
          const size_t te = t.find('>', ad);
          encoding = attr(t.substr(ad, te - ad), "encoding");
          const size_t us = t.find('_', te);
          const size_t end = t.rfind("</AppendedData>");
          if (te == std::string::npos || us == std::string::npos || end == std::string::npos || us > end)
            {
              v.error = "AppendedData section without payload marker";
              return v;
            }
          blob = t.substr(us + 1, end - us - 1);
          have_blob = true;
          if (vtag.find("compressor=") != std::string::npos || !(encoding == "raw" || encoding == "base64"))
            {
              v.appended = true;
              v.ok = true; // compressed appended data: only the skeleton is checked
              for (const char *e : {"<PointData>", "</PointData>", "<Points>", "</Points>", "<Cells>", "</Cells>", "</Piece>", "</UnstructuredGrid>"})
                if (t.find(e) == std::string::npos)
                  {
                    v.ok = false;
                    v.error = std::string("missing ") + e;
                  }
              return v;
            }
        }
      // sections
      auto section = [&](const std::string &name, size_t &b, size_t &e) -> bool
      {
        b = t.find("<" + name + ">");
        e = t.find("</" + name + ">");
        return b != std::string::npos && e != std::string::npos && b < e;
      };
      size_t pdb, pde, ptb, pte, cb, ce;
      if (!section("PointData", pdb, pde) || !section("Points", ptb, pte) || !section("Cells", cb, ce))
        {
          v.error = "missing PointData/Points/Cells section";
          return v;
        }
      auto arrays = [&](size_t b, size_t e, std::vector<Array> &out) -> bool
      {
        size_t p = b;
        for (;;)
          {
            const size_t a = t.find("<DataArray", p);
            if (a == std::string::npos || a >= e)
              return true;
            const size_t te = t.find('>', a);
            if (te != std::string::npos && te > 0 && t[te - 1] == '/' && have_blob)
              {
                // self-closing element: the data is in the appended section
                Array arr;
                if (!decode_appended(t.substr(a, te - 1 - a), blob, encoding, arr, v.error))
                  return false;
                out.push_back(arr);
                p = te + 1;
                continue;
              }
            const size_t ce2 = t.find("</DataArray>", te);
            if (te == std::string::npos || ce2 == std::string::npos || ce2 > e)
              {
                v.error = "unterminated DataArray";
                return false;
              }
            Array arr;
            if (have_blob ? !decode_appended(t.substr(a, te - a), blob, encoding, arr, v.error)
                : !decode_array(t.substr(a, te - a), t.substr(te + 1, ce2 - te - 1), arr, v.error))
              return false;
            out.push_back(arr);
            p = ce2 + 12;
          }
      };
      std::vector<Array> pts, cells;
      if (!arrays(pdb, pde, v.point_data) || !arrays(ptb, pte, pts) || !arrays(cb, ce, cells))
        return v;
      if (pts.size() != 1)
        {
          v.error = "Points must hold exactly one DataArray";
          return v;
        }
      v.points = pts[0];
      for (auto &c : cells)
        {
          if (c.name == "connectivity") v.connectivity = c;
          else if (c.name == "offsets") v.offsets = c;
          else if (c.name == "types") v.types = c;
        }
      if (!v.connectivity.ok || !v.offsets.ok || !v.types.ok)
        {
          v.error = "Cells lacks connectivity/offsets/types";
          return v;
        }
      v.exact = v.points.format == "binary" || v.points.format == "appended";
      v.ok = true;
      return v;
    }

    struct GridFile
    {
      std::string type = "chunk", format = "ASCII";
      long dim = 3, compositions = 0;
      double x_min = NAN, x_max = NAN, y_min = NAN, y_max = NAN, z_min = NAN, z_max = NAN;
      long nx = -1, ny = -1, nz = -1;
      bool ok = true;
    };

    GridFile parse_grid(const std::string &text, long max_resolution)
    {
      GridFile g;
      for (const auto &line : split_lines(text))
        {
          const auto tok = split_ws(line);
          if (tok.empty() || tok[0] == "#" || tok[0][0] == '#')
            continue;
          if (tok.size() < 3 || tok[1] != "=")
            continue;
          const std::string &k = tok[0], &val = tok[2];
          double d = 0;
          unsigned long u = 0;
          if (k == "grid_type") g.type = val;
          else if (k == "vtu_output_format") g.format = val;
          else if (k == "dim" && to_uint(val, u)) g.dim = static_cast<long>(u);
          else if (k == "compositions" && to_uint(val, u)) g.compositions = static_cast<long>(u);
          else if (k == "x_min" && to_double(val, d)) g.x_min = d;
          else if (k == "x_max" && to_double(val, d)) g.x_max = d;
          else if (k == "y_min" && to_double(val, d)) g.y_min = d;
          else if (k == "y_max" && to_double(val, d)) g.y_max = d;
          else if (k == "z_min" && to_double(val, d)) g.z_min = d;
          else if (k == "z_max" && to_double(val, d)) g.z_max = d;
          else if (k == "n_cell_x" && to_uint(val, u)) g.nx = std::min(static_cast<long>(u), max_resolution);
          else if (k == "n_cell_y" && to_uint(val, u)) g.ny = std::min(static_cast<long>(u), max_resolution);
          else if (k == "n_cell_z" && to_uint(val, u)) g.nz = std::min(static_cast<long>(u), max_resolution);
        }
      return g;
    }

    const Array *find_array(const Vtu &v, const std::string &name)
    {
      for (const auto &a : v.point_data)
        if (a.name == name)
          return &a;
      return nullptr;
    }

    bool close(double a, double b, double rel, double scale)
    {
      return std::fabs(a - b) <= rel * std::max(scale, std::max(std::fabs(a), std::fabs(b)));
    }

    // structural checks common to all files
    bool structure_ok(const Vtu &v, long dim, long compositions, std::string &why)
    {
      const long np = v.npoints, nc = v.ncells;
      if (static_cast<long>(v.points.v.size()) != 3 * np || v.points.ncomp != 3)
        {
          why = "Points has " + std::to_string(v.points.v.size()) + " values for " + std::to_string(np) + " points";
          return false;
        }
      const long per_cell = dim == 2 ? 4 : 8;
      if (static_cast<long>(v.connectivity.v.size()) != per_cell * nc || static_cast<long>(v.offsets.v.size()) != nc || static_cast<long>(v.types.v.size()) != nc)
        {
          why = "Cells arrays have lengths " + std::to_string(v.connectivity.v.size()) + "/" + std::to_string(v.offsets.v.size()) + "/" + std::to_string(v.types.v.size())
                + " for " + std::to_string(nc) + " cells";
          return false;
        }
      for (long i = 0; i < nc; ++i)
        {
          if (v.offsets.v[static_cast<size_t>(i)] != static_cast<double>((i + 1) * per_cell))
            {
              why = "offsets[" + std::to_string(i) + "] = " + fmt(v.offsets.v[static_cast<size_t>(i)]);
              return false;
            }
          if (v.types.v[static_cast<size_t>(i)] != (dim == 2 ? 9 : 12))
            {
              why = "cell type " + fmt(v.types.v[static_cast<size_t>(i)]);
              return false;
            }
        }
      for (double c : v.connectivity.v)
        if (!(c >= 0 && c < np) || c != std::floor(c))
          {
            why = "connectivity index " + fmt(c) + " with " + std::to_string(np) + " points";
            return false;
          }
      // data arrays, in the documented order
      std::vector<std::pair<std::string, int>> want = {{"Depth", 1}, {"Temperature", 1}, {"velocity", 3}, {"Tag", 1}};
      for (long c = 0; c < compositions; ++c)
        want.push_back({"Composition " + std::to_string(c), 1});
      if (v.point_data.size() != want.size())
        {
          why = std::to_string(v.point_data.size()) + " data arrays, " + std::to_string(want.size()) + " expected";
          return false;
        }
      for (size_t i = 0; i < want.size(); ++i)
        {
          const Array &a = v.point_data[i];
          if (a.name != want[i].first || a.ncomp != want[i].second || static_cast<long>(a.v.size()) != np * want[i].second)
            {
              why = "data array " + std::to_string(i) + " is '" + a.name + "' with " + std::to_string(a.v.size()) + " values (expected '" + want[i].first + "', "
                    + std::to_string(np * want[i].second) + ")";
              return false;
            }
        }
      return true;
    }
  }

  void check_grid(const Scenario &s, const Op &op, const Resp &r, RunResult &res, int op_index)
  {
    const std::string P = s.property;
    if (r.status == 3 || op.argv.size() < 3)
      return;
    // command line
    bool filtered = false, by_tag = false;
    long max_resolution = 4294967295L;
    std::vector<std::string> files;
    for (size_t i = 1; i < op.argv.size(); ++i)
      {
        if (op.argv[i] == "-j" || op.argv[i] == "--resolution-limit")
          {
            if (op.argv[i] == "--resolution-limit" && i + 1 < op.argv.size())
              max_resolution = std::atol(op.argv[i + 1].c_str());
            ++i;
          }
        else if (op.argv[i] == "--filtered") filtered = true;
        else if (op.argv[i] == "--by-tag") by_tag = true;
        else files.push_back(op.argv[i]);
      }
    if (files.size() != 2)
      return;
    auto wf = s.files.find(files[0]);
    auto gf = s.files.find(files[1]);
    if (wf == s.files.end() || gf == s.files.end())
      return;
    const GridFile g = parse_grid(gf->second, max_resolution);
    if (r.status != 0 || r.rc != 0)
      {
        // a world file the library itself refuses is not the tool's failure
        try
          {
            simfs::set_faults({});
            WorldBuilder::World probe(files[0]);
          }
        catch (std::exception &)
          {
            res.counters["grid_world_unbuildable"]++;
            return;
          }
        // a tool that stops with a message because the library refuses a node is within its rights
        if (r.status == 0 && r.rc != 0 && r.err.find("error") != std::string::npos)
          {
            res.counters["grid_stopped_with_message"]++;
            return;
          }
        add(res, P + "/tool-failed", "grid", "gwb-grid failed on a grammatical grid file: " + (r.what.empty() ? r.err.substr(0, 300) : r.what.substr(0, 300)), op_index);
        return;
      }
    std::string base = files[0].substr(files[0].find_last_of("/\\") + 1);
    base = base.substr(0, base.find_last_of('.'));
    auto mf = r.written.find(base + ".vtu");
    if (mf == r.written.end())
      {
        add(res, P + "/missing-file", "main", "no file " + base + ".vtu was written", op_index);
        return;
      }
    const Vtu v = parse_vtu(mf->second);
    res.counters["evaluations"]++;
    if (!v.ok)
      {
        add(res, P + "/malformed-vtu", "main", base + ".vtu: " + v.error, op_index);
        return;
      }
    res.counters["nontrivial"] = 1;
    res.counters["vtu_files_parsed"]++;
    if (v.appended)
      {
        res.counters["vtu_appended_skeleton_only"]++;
        return;
      }
    std::string why;
    if (!structure_ok(v, g.dim, g.compositions, why))
      {
        add(res, P + "/malformed-vtu", "structure", base + ".vtu: " + why, op_index);
        return;
      }
    const double tol = v.exact ? 1e-9 : 2e-5;
    const long np = v.npoints;
    const Array &depth = *find_array(v, "Depth");

    // ---- reference mesh: node set, cells, depth
    const double top = g.z_max;
    const bool lattice = g.type == "cartesian" || g.type == "chunk" || g.type == "annulus";
    long n_t = 0;
    if (g.type == "annulus")
      n_t = static_cast<long>((2.0 * M_PI * g.z_max) / ((g.z_max - g.z_min) / static_cast<double>(g.nz)));
    long exp_points = 0, exp_cells = 0;
    const long ny_eff = g.dim == 3 ? g.ny : 0;
    if (g.type == "cartesian" || g.type == "chunk")
      {
        exp_points = (g.nx + 1) * (g.nz + 1) * (g.dim == 3 ? g.ny + 1 : 1);
        exp_cells = g.nx * g.nz * (g.dim == 3 ? g.ny : 1);
      }
    else if (g.type == "annulus")
      {
        exp_points = n_t * (g.nz + 1);
        exp_cells = n_t * g.nz;
      }
    else if (g.type == "sphere")
      {
        exp_points = (12 * g.nx * g.nx + 2) * (g.nz + 1);
        exp_cells = 12 * g.nx * g.nx * g.nz;
      }
    if (np != exp_points || v.ncells != exp_cells)
      {
        add(res, P + "/mesh", "counts", base + ".vtu has " + std::to_string(np) + " points and " + std::to_string(v.ncells) + " cells; the grid file asks for "
            + std::to_string(exp_points) + " and " + std::to_string(exp_cells) + " (" + g.type + ", dim " + std::to_string(g.dim) + ")", op_index);
        return;
      }
    const double deg = M_PI / 180.0;
    std::vector<long> node_index(static_cast<size_t>(np), -1); // lattice index of each node
    const long sx = g.nx + 1, sy = ny_eff + 1, sz = g.nz + 1;
    const double extent = std::max(std::fabs(g.z_max), std::max(std::fabs(g.x_max - g.x_min), std::fabs(g.z_max - g.z_min)));
    if (lattice)
      {
        std::vector<char> seen(static_cast<size_t>(g.type == "annulus" ? n_t * sz : sx * sy * sz), 0);
        for (long i = 0; i < np; ++i)
          {
            const double px = v.points.v[static_cast<size_t>(3 * i)], py = v.points.v[static_cast<size_t>(3 * i + 1)], pz = v.points.v[static_cast<size_t>(3 * i + 2)];
            double a = 0, b = 0, c = 0; // lattice coordinates (x|lon, y|lat, z|radius)
            double exp_depth = 0;
            long ia = 0, ib = 0, ic = 0;
            bool ok = true;
            if (g.type == "cartesian")
              {
                a = px;
                b = g.dim == 3 ? py : 0;
                c = g.dim == 3 ? pz : py;
                if (g.dim == 2 && pz != 0)
                  ok = false;
                const double dx = (g.x_max - g.x_min) / static_cast<double>(g.nx), dz = (g.z_max - g.z_min) / static_cast<double>(g.nz);
                const double dy = g.dim == 3 ? (g.y_max - g.y_min) / static_cast<double>(g.ny) : 1;
                ia = std::lround((a - g.x_min) / dx);
                ic = std::lround((c - g.z_min) / dz);
                ib = g.dim == 3 ? std::lround((b - g.y_min) / dy) : 0;
                ok = ok && ia >= 0 && ia <= g.nx && ic >= 0 && ic <= g.nz && ib >= 0 && ib <= ny_eff
                     && close(a, g.x_min + static_cast<double>(ia) * dx, tol, extent) && close(c, g.z_min + static_cast<double>(ic) * dz, tol, extent)
                     && (g.dim == 2 || close(b, g.y_min + static_cast<double>(ib) * dy, tol, extent));
                exp_depth = top - c;
              }
            else if (g.type == "chunk")
              {
                const double rad = std::sqrt(px * px + py * py + pz * pz);
                double lon, lat = 0;
                if (g.dim == 2)
                  {
                    lon = std::atan2(py, px);
                    if (pz != 0)
                      ok = false;
                  }
                else
                  {
                    lon = std::atan2(py, px);
                    lat = rad > 0 ? std::asin(std::max(-1.0, std::min(1.0, pz / rad))) : 0;
                  }
                const double dlon = (g.x_max - g.x_min) * deg / static_cast<double>(g.nx), dr = (g.z_max - g.z_min) / static_cast<double>(g.nz);
                const double dlat = g.dim == 3 ? (g.y_max - g.y_min) * deg / static_cast<double>(g.ny) : 1;
                ic = std::lround((rad - g.z_min) / dr);
                ib = g.dim == 3 ? std::lround((lat - g.y_min * deg) / dlat) : 0;
                bool found = false;
                for (int m = -2; m <= 2 && !found; ++m)
                  {
                    const double l = lon + 2.0 * M_PI * m;
                    const long cand = std::lround((l - g.x_min * deg) / dlon);
                    if (cand >= 0 && cand <= g.nx && std::fabs(l - (g.x_min * deg + static_cast<double>(cand) * dlon)) <= std::max(tol * 10, 1e-7))
                      {
                        ia = cand;
                        found = true;
                      }
                  }
                // at the poles of a 3D chunk the longitude is undefined
                if (!found && g.dim == 3 && std::fabs(std::fabs(lat) - M_PI / 2) < 1e-6)
                  {
                    found = true;
                    ia = -1;
                  }
                ok = ok && found && ic >= 0 && ic <= g.nz && ib >= 0 && ib <= ny_eff && close(rad, g.z_min + static_cast<double>(ic) * dr, tol, extent)
                     && (g.dim == 2 || std::fabs(lat - (g.y_min * deg + static_cast<double>(ib) * dlat)) <= std::max(tol * 10, 1e-7));
                exp_depth = top - rad;
              }
            else // annulus
              {
                const double rad = std::sqrt(px * px + py * py);
                double th = std::atan2(py, px);
                if (th < -1e-12)
                  th += 2.0 * M_PI;
                const double dr = (g.z_max - g.z_min) / static_cast<double>(g.nz);
                ia = std::lround(th / (2.0 * M_PI) * static_cast<double>(n_t)) % n_t;
                ic = std::lround((rad - g.z_min) / dr);
                ib = 0;
                const double th_ref = 2.0 * M_PI * static_cast<double>(ia) / static_cast<double>(n_t);
                double dth = std::fabs(th - th_ref);
                dth = std::min(dth, std::fabs(dth - 2.0 * M_PI));
                ok = pz == 0 && ic >= 0 && ic <= g.nz && close(rad, g.z_min + static_cast<double>(ic) * dr, tol, extent) && dth <= std::max(tol * 10, 1e-7);
                exp_depth = top - rad;
              }
            if (!ok)
              {
                std::ostringstream o;
                o.precision(17);
                o << base << ".vtu node " << i << " at (" << px << "," << py << "," << pz << ") is not a node of the requested " << g.type << " lattice";
                add(res, P + "/mesh", "node", o.str(), op_index);
                return;
              }
            if (!close(depth.v[static_cast<size_t>(i)], exp_depth, v.exact ? 1e-8 : 2e-5, extent))
              {
                std::ostringstream o;
                o.precision(17);
                o << base << ".vtu node " << i << ": Depth = " << depth.v[static_cast<size_t>(i)] << " but the node is " << exp_depth << " below the top of the grid";
                add(res, P + "/depth", "depth", o.str(), op_index);
                return;
              }
            if (ia >= 0)
              {
                const long idx = g.type == "annulus" ? ia * sz + ic : (ia * sy + ib) * sz + ic;
                node_index[static_cast<size_t>(i)] = idx;
                if (seen[static_cast<size_t>(idx)])
                  {
                    add(res, P + "/mesh", "duplicate-node", base + ".vtu: lattice node " + std::to_string(idx) + " appears twice", op_index);
                    return;
                  }
                seen[static_cast<size_t>(idx)] = 1;
              }
          }
        // every cell = the corners of one lattice cell, every lattice cell exactly once
        const long per_cell = g.dim == 2 ? 4 : 8;
        std::set<long> cells_seen;
        for (long cidx = 0; cidx < v.ncells; ++cidx)
          {
            long mina = 1 << 30, minb = 1 << 30, minc = 1 << 30;
            std::set<long> corner;
            bool pole = false;
            for (long k = 0; k < per_cell; ++k)
              {
                const long node = static_cast<long>(v.connectivity.v[static_cast<size_t>(cidx * per_cell + k)]);
                const long idx = node_index[static_cast<size_t>(node)];
                if (idx < 0)
                  {
                    pole = true;
                    continue;
                  }
                corner.insert(idx);
              }
            if (pole)
              continue;
            bool good = static_cast<long>(corner.size()) == per_cell;
            std::vector<std::array<long, 3>> abc;
            for (long idx : corner)
              {
                std::array<long, 3> t;
                if (g.type == "annulus")
                  t = {{idx / sz, 0, idx % sz}};
                else
                  t = {{idx / (sy * sz), (idx / sz) % sy, idx % sz}};
                abc.push_back(t);
                minb = std::min(minb, t[1]);
                minc = std::min(minc, t[2]);
              }
            // the base corner along the first axis (with wrap-around in the annulus)
            if (good)
              {
                std::set<long> as;
                for (auto &t : abc)
                  as.insert(t[0]);
                if (as.size() != 2)
                  good = false;
                else
                  {
                    const long a0 = *as.begin(), a1 = *as.rbegin();
                    if (a1 - a0 == 1)
                      mina = a0;
                    else if (g.type == "annulus" && a0 == 0 && a1 == n_t - 1)
                      mina = a1;
                    else
                      good = false;
                  }
              }
            if (good)
              for (auto &t : abc)
                {
                  const long da = g.type == "annulus" ? ((t[0] - mina + n_t) % n_t) : t[0] - mina;
                  if (!(da == 0 || da == 1) || !(t[1] - minb == 0 || t[1] - minb == 1) || !(t[2] - minc == 0 || t[2] - minc == 1))
                    good = false;
                }
            const long key = (mina * (sy + 1) + minb) * (sz + 1) + minc;
            if (!good || cells_seen.count(key))
              {
                add(res, P + "/mesh", "cell", base + ".vtu cell " + std::to_string(cidx) + " is not (or repeats) a cell of the requested lattice", op_index);
                return;
              }
            cells_seen.insert(key);
          }
      }
    else if (g.type == "sphere")
      {
        const long shell = 12 * g.nx * g.nx + 2;
        for (long i = 0; i < np; ++i)
          {
            const double px = v.points.v[static_cast<size_t>(3 * i)], py = v.points.v[static_cast<size_t>(3 * i + 1)], pz = v.points.v[static_cast<size_t>(3 * i + 2)];
            const double rad = std::sqrt(px * px + py * py + pz * pz);
            const long k = i / shell;
            const double want = g.z_min + (g.z_max - g.z_min) / static_cast<double>(g.nz) * static_cast<double>(k);
            if (!close(rad, want, std::max(tol, 1e-7), extent))
              {
                std::ostringstream o;
                o.precision(17);
                o << base << ".vtu node " << i << " has radius " << rad << ", shell " << k << " is at " << want;
                add(res, P + "/mesh", "node", o.str(), op_index);
                return;
              }
            double ed = top - rad;
            if (std::fabs(ed) < 1e-8)
              ed = 0;
            if (!close(depth.v[static_cast<size_t>(i)], ed, v.exact ? 1e-8 : 2e-5, extent))
              {
                std::ostringstream o;
                o.precision(17);
                o << base << ".vtu node " << i << ": Depth = " << depth.v[static_cast<size_t>(i)] << " but the node is " << ed << " below the outer radius";
                add(res, P + "/depth", "depth", o.str(), op_index);
                return;
              }
          }
        // the quads of every shell tile the sphere exactly once: their solid angles add up to 4 pi, and the outer
        // face of a cell is the radial projection of its inner face
        auto unit = [&](long node, double u[3])
        {
          const double x = v.points.v[static_cast<size_t>(3 * node)], y = v.points.v[static_cast<size_t>(3 * node + 1)], z = v.points.v[static_cast<size_t>(3 * node + 2)];
          const double r = std::sqrt(x * x + y * y + z * z);
          u[0] = x / r;
          u[1] = y / r;
          u[2] = z / r;
        };
        auto tri_angle = [](const double a[3], const double b[3], const double c[3]) -> double
        {
          const double det = a[0] * (b[1] * c[2] - b[2] * c[1]) - a[1] * (b[0] * c[2] - b[2] * c[0]) + a[2] * (b[0] * c[1] - b[1] * c[0]);
          const double ab = a[0] * b[0] + a[1] * b[1] + a[2] * b[2], bc = b[0] * c[0] + b[1] * c[1] + b[2] * c[2], ca = c[0] * a[0] + c[1] * a[1] + c[2] * a[2];
          return 2.0 * std::atan2(std::fabs(det), 1.0 + ab + bc + ca);
        };
        std::vector<double> solid(static_cast<size_t>(g.nz), 0.0);
        for (long cidx = 0; cidx < v.ncells; ++cidx)
          {
            const long k = cidx / (12 * g.nx * g.nx);
            double u[8][3];
            for (long c = 0; c < 8; ++c)
              unit(static_cast<long>(v.connectivity.v[static_cast<size_t>(cidx * 8 + c)]), u[c]);
            solid[static_cast<size_t>(k)] += tri_angle(u[0], u[1], u[2]) + tri_angle(u[0], u[2], u[3]);
            for (long c = 0; c < 4; ++c)
              {
                const double d = std::fabs(u[c][0] - u[c + 4][0]) + std::fabs(u[c][1] - u[c + 4][1]) + std::fabs(u[c][2] - u[c + 4][2]);
                if (d > (v.exact ? 1e-9 : 1e-4))
                  {
                    add(res, P + "/mesh", "cell", base + ".vtu cell " + std::to_string(cidx) + ": the outer face is not the radial projection of the inner face", op_index);
                    return;
                  }
              }
          }
        for (long k = 0; k < g.nz; ++k)
          if (std::fabs(solid[static_cast<size_t>(k)] - 4.0 * M_PI) > (v.exact ? 1e-6 : 1e-3))
            {
              std::ostringstream o;
              o.precision(12);
              o << base << ".vtu: the cells of layer " << k << " cover a solid angle of " << solid[static_cast<size_t>(k)] << ", a full sphere is " << 4.0 * M_PI;
              add(res, P + "/mesh", "sphere-cover", o.str(), op_index);
              return;
            }
        for (long cidx = 0; cidx < v.ncells; ++cidx)
          {
            const long k = cidx / (12 * g.nx * g.nx);
            for (long c = 0; c < 8; ++c)
              {
                const long node = static_cast<long>(v.connectivity.v[static_cast<size_t>(cidx * 8 + c)]);
                if (node / shell != k + (c >= 4 ? 1 : 0))
                  {
                    add(res, P + "/mesh", "cell", base + ".vtu cell " + std::to_string(cidx) + " does not connect shell " + std::to_string(k) + " with the next one", op_index);
                    return;
                  }
              }
          }
      }
    res.counters["mesh_checks"]++;

    // ---- node values == the library at the node (exact formats only)
    std::unique_ptr<WorldBuilder::World> world;
    try
      {
        simfs::set_faults({});
        world.reset(new WorldBuilder::World(files[0]));
      }
    catch (std::exception &)
      {
        return;
      }
    std::vector<Prop> props = {Prop{{1, 0, 0}}, Prop{{5, 0, 0}}, Prop{{4, 0, 0}}};
    for (long c = 0; c < g.compositions; ++c)
      props.push_back(Prop{{2, static_cast<unsigned>(c), 0}});
    const Array &T = *find_array(v, "Temperature"), &vel = *find_array(v, "velocity"), &tag = *find_array(v, "Tag");
    if (!v.exact)
      {
        // ASCII files carry six digits, too few to ask the library again at the printed position; but a node that
        // was never filled in (temperature 0, tag 0) is recognisable whatever the rounding
        long unfilled = 0, first = -1;
        for (long i = 0; i < np && g.type != "sphere"; ++i)
          if (T.v[static_cast<size_t>(i)] == 0.0)
            {
              const double px = v.points.v[static_cast<size_t>(3 * i)], py = v.points.v[static_cast<size_t>(3 * i + 1)], pz = v.points.v[static_cast<size_t>(3 * i + 2)];
              try
                {
                  const std::vector<double> o = g.dim == 2 ? world->properties(std::array<double, 2> {{px, py}}, depth.v[static_cast<size_t>(i)], props)
                                                : world->properties(std::array<double, 3> {{px, py, pz}}, depth.v[static_cast<size_t>(i)], props);
                  if (o[0] > 1.0)
                    {
                      ++unfilled;
                      if (first < 0)
                        first = i;
                    }
                }
              catch (std::exception &)
                {
                }
            }
        if (unfilled > 0)
          {
            add(res, P + "/node-value", "unfilled", base + ".vtu: " + std::to_string(unfilled) + " nodes have temperature 0 where the library returns a temperature (first: node "
                + std::to_string(first) + ")", op_index);
            return;
          }
      }
    if (v.exact)
      {
        for (long i = 0; i < np; ++i)
          {
            const double px = v.points.v[static_cast<size_t>(3 * i)], py = v.points.v[static_cast<size_t>(3 * i + 1)], pz = v.points.v[static_cast<size_t>(3 * i + 2)];
            std::vector<double> o;
            try
              {
                if (g.dim == 2)
                  o = world->properties(std::array<double, 2> {{px, py}}, depth.v[static_cast<size_t>(i)], props);
                else
                  o = world->properties(std::array<double, 3> {{px, py, pz}}, depth.v[static_cast<size_t>(i)], props);
              }
            catch (std::exception &)
              {
                continue;
              }
            res.counters["evaluations"]++;
            res.counters["node_values_compared"]++;
            auto same = [](double a, double b)
            {
              return std::memcmp(&a, &b, 8) == 0 || (std::isnan(a) && std::isnan(b));
            };
            std::string bad;
            if (!same(T.v[static_cast<size_t>(i)], o[0])) bad = "Temperature";
            for (int k = 0; k < 3; ++k)
              if (!same(vel.v[static_cast<size_t>(3 * i + k)], o[static_cast<size_t>(1 + k)])) bad = "velocity";
            if (!same(tag.v[static_cast<size_t>(i)], o[4])) bad = "Tag";
            for (long c = 0; c < g.compositions; ++c)
              if (!same(find_array(v, "Composition " + std::to_string(c))->v[static_cast<size_t>(i)], o[static_cast<size_t>(5 + c)]))
                bad = "Composition " + std::to_string(c);
            if (!bad.empty())
              {
                std::ostringstream os;
                os.precision(17);
                os << base << ".vtu node " << i << " at (" << px << "," << py << "," << pz << ") depth " << depth.v[static_cast<size_t>(i)] << ": stored " << bad
                   << " differs from the library's answer (T " << T.v[static_cast<size_t>(i)] << " vs " << o[0] << ", tag " << tag.v[static_cast<size_t>(i)] << " vs " << o[4] << ")";
                add(res, P + "/node-value", bad.substr(0, 4), os.str(), op_index);
                return;
              }
          }
      }

    // ---- filtered / by-tag files: the reference selection applied to the full mesh
    const std::vector<std::string> &tags = world->feature_tags;
    const long per_cell = g.dim == 2 ? 4 : 8;
    auto check_selection = [&](const std::string &fname, const std::vector<bool> &include) -> bool
    {
      auto ff = r.written.find(fname);
      if (ff == r.written.end())
        {
          add(res, P + "/missing-file", "selection", "no file " + fname + " was written", op_index);
          return false;
        }
      const Vtu f = parse_vtu(ff->second);
      res.counters["evaluations"]++;
      if (!f.ok)
        {
          add(res, P + "/malformed-vtu", "selection", fname + ": " + f.error, op_index);
          return false;
        }
      res.counters["vtu_files_parsed"]++;
      std::string why2;
      if (!structure_ok(f, g.dim, g.compositions, why2))
        {
          add(res, P + "/malformed-vtu", "selection-structure", fname + ": " + why2, op_index);
          return false;
        }
      // expected cells, as sorted corner coordinates
      typedef std::vector<std::array<double, 3>> Corners;
      auto corners = [&](const Vtu &m, long cidx) -> Corners
      {
        Corners c;
        for (long k = 0; k < per_cell; ++k)
          {
            const size_t node = static_cast<size_t>(m.connectivity.v[static_cast<size_t>(cidx * per_cell + k)]);
            c.push_back({{m.points.v[3 * node], m.points.v[3 * node + 1], m.points.v[3 * node + 2]}});
          }
        std::sort(c.begin(), c.end());
        return c;
      };
      std::multiset<Corners> want, have;
      for (long cidx = 0; cidx < v.ncells; ++cidx)
        {
          int highest = -1;
          for (long k = 0; k < per_cell; ++k)
            {
              const size_t node = static_cast<size_t>(v.connectivity.v[static_cast<size_t>(cidx * per_cell + k)]);
              highest = std::max(highest, static_cast<int>(tag.v[node]));
            }
          if (highest >= 0 && static_cast<size_t>(highest) < include.size() && include[static_cast<size_t>(highest)])
            want.insert(corners(v, cidx));
        }
      for (long cidx = 0; cidx < f.ncells; ++cidx)
        have.insert(corners(f, cidx));
      if (want != have)
        {
          add(res, P + "/selection", "cells", fname + " holds " + std::to_string(have.size()) + " cells, the tag rule selects " + std::to_string(want.size())
              + " of the full mesh (or other cells)", op_index);
          return false;
        }
      // node values unchanged: look every node up in the full mesh by its coordinates
      std::map<std::array<double, 3>, size_t> where;
      for (long i = 0; i < np; ++i)
        where[ {{v.points.v[static_cast<size_t>(3 * i)], v.points.v[static_cast<size_t>(3 * i + 1)], v.points.v[static_cast<size_t>(3 * i + 2)]}}] = static_cast<size_t>(i);
      for (long i = 0; i < f.npoints; ++i)
        {
          const std::array<double, 3> key = {{f.points.v[static_cast<size_t>(3 * i)], f.points.v[static_cast<size_t>(3 * i + 1)], f.points.v[static_cast<size_t>(3 * i + 2)]}};
          auto it = where.find(key);
          if (it == where.end())
            {
              add(res, P + "/selection", "node", fname + " node " + std::to_string(i) + " is not a node of the full mesh", op_index);
              return false;
            }
          for (size_t a = 0; a < f.point_data.size(); ++a)
            {
              const int nc = f.point_data[a].ncomp;
              for (int k = 0; k < nc; ++k)
                {
                  const double x = f.point_data[a].v[static_cast<size_t>(i * nc + k)], y = v.point_data[a].v[it->second * static_cast<size_t>(nc) + static_cast<size_t>(k)];
                  if (std::memcmp(&x, &y, 8) != 0 && !(std::isnan(x) && std::isnan(y)))
                    {
                      add(res, P + "/selection", "value:" + f.point_data[a].name.substr(0, 4), fname + " node " + std::to_string(i) + ": '" + f.point_data[a].name
                          + "' differs from the full mesh (" + fmt(x) + " vs " + fmt(y) + ")", op_index);
                      return false;
                    }
                }
            }
        }
      res.counters["selection_checks"]++;
      return true;
    };
    size_t expected_files = 1;
    if (filtered)
      {
        std::vector<bool> include(tags.size(), true);
        for (size_t i = 0; i < tags.size(); ++i)
          if (tags[i] == "mantle layer")
            include[i] = false;
        ++expected_files;
        if (!check_selection(base + ".filtered.vtu", include))
          return;
      }
    if (by_tag)
      for (size_t i = 0; i < tags.size(); ++i)
        {
          if (tags[i] == "mantle layer")
            continue;
          std::vector<bool> include(tags.size(), false);
          include[i] = true;
          ++expected_files;
          if (!check_selection(base + "." + std::to_string(i) + ".vtu", include))
            return;
        }
    if (r.written.size() != expected_files)
      add(res, P + "/missing-file", "file-set", std::to_string(r.written.size()) + " files were written, " + std::to_string(expected_files) + " expected", op_index);
  }
}
