// C12: one run = construct a world from a (possibly damaged) document under a
// fault plan of the simulated file layer, probe it, then construct from the
// intact file again.
#include "gen.h"

#include "world_builder/world.h"

#include "rapidjson/document.h"
#include "rapidjson/schema.h"
#include "rapidjson/stringbuffer.h"
#include "rapidjson/prettywriter.h"
#include "rapidjson/writer.h"

#include <algorithm>
#include <cmath>
#include <limits>

using namespace rapidjson;

namespace sim
{
  namespace
  {
    const unsigned PARSE_FLAGS = kParseCommentsFlag | kParseNanAndInfFlag | kParseIterativeFlag;

    // the schema the library under test publishes (written by Parameters::initialize
    // when an output directory is given), captured from the simulated disk
    const std::string &published_schema()
    {
      static std::string *schema = nullptr;
      if (schema == nullptr)
        {
          schema = new std::string();
          simfs::reset();
          simfs::put("/simfs/minimal.wb", "{\"version\":\"1.1\",\"features\":[]}");
          try
            {
              WorldBuilder::World w("/simfs/minimal.wb", true, "/simfs/schema/");
            }
          catch (...)
            {
            }
          simfs::get("/simfs/schema/world_builder_declarations.schema.json", *schema);
          simfs::reset();
        }
      return *schema;
    }

    // the schema published with the repository (doc/world_builder_declarations.schema.json of the tree under
    // test): a change that drops a constraint from the code AND from the schema the code writes out is still
    // measured against what the project has published
    bool doc_schema_valid(const Document &doc)
    {
      static SchemaDocument *sd = nullptr;
      static bool tried = false;
      if (!tried)
        {
          tried = true;
          const std::string txt = read_file(repo_dir() + "/doc/world_builder_declarations.schema.json");
          Document s;
          s.Parse<kParseNanAndInfFlag>(txt.c_str(), txt.size());
          if (!txt.empty() && !s.HasParseError() && s.IsObject())
            sd = new SchemaDocument(s);
        }
      if (sd == nullptr)
        return true;
      SchemaValidator v(*sd);
      return doc.Accept(v);
    }

    bool schema_valid(const Document &doc, bool &usable)
    {
      static SchemaDocument *sd = nullptr;
      static bool tried = false;
      if (!tried)
        {
          tried = true;
          Document s;
          const std::string &txt = published_schema();
          s.Parse<kParseNanAndInfFlag>(txt.c_str(), txt.size());
          if (!s.HasParseError() && s.IsObject())
            sd = new SchemaDocument(s);
        }
      usable = sd != nullptr;
      if (!usable)
        return true;
      SchemaValidator v(*sd);
      return doc.Accept(v);
    }

    struct NodeRef
    {
      Value *parent;
      bool in_object;
      SizeType index;      // member index or array index
      int depth;
    };

    void collect(Value &v, int depth, std::vector<NodeRef> &out)
    {
      if (depth > 30)
        return;
      if (v.IsObject())
        {
          SizeType i = 0;
          for (auto it = v.MemberBegin(); it != v.MemberEnd(); ++it, ++i)
            {
              out.push_back({&v, true, i, depth});
              collect(it->value, depth + 1, out);
            }
        }
      else if (v.IsArray())
        for (SizeType i = 0; i < v.Size(); ++i)
          {
            out.push_back({&v, false, i, depth});
            collect(v[i], depth + 1, out);
          }
    }

    Value &node_value(const NodeRef &n)
    {
      if (n.in_object)
        return (n.parent->MemberBegin() + n.index)->value;
      return (*n.parent)[n.index];
    }

    std::string node_key(const NodeRef &n)
    {
      if (n.in_object)
        return (n.parent->MemberBegin() + n.index)->name.GetString();
      return "";
    }

    // keys whose magnitude multiplies memory or work: a legitimately slow construction is not a hang
    bool work_multiplier(const std::string &key)
    {
      return key == "maximum distance between coordinates" || key == "number of points in spline";
    }

    std::string mutate(Document &d, Rng &rng, int &applied)
    {
      std::vector<NodeRef> nodes;
      collect(d, 0, nodes);
      if (nodes.empty())
        return "";
      auto &al = d.GetAllocator();
      if (rng.chance(0.35))
        {
          // length mismatch between list-valued siblings: take an object that holds two or more lists and
          // change the length of one of them by one (or cut it down to one element / nothing)
          std::vector<Value *> holders;
          std::vector<NodeRef> stack_nodes = nodes;
          for (const auto &nr : nodes)
            {
              Value &ov = node_value(nr);
              if (!ov.IsObject())
                continue;
              int lists = 0;
              for (auto &m : ov.GetObject())
                if (m.value.IsArray())
                  ++lists;
              // models (objects with a "model" key) are where lists have to agree with each other; the models
              // nested inside features and segments count double
              if (lists >= 2 && ov.HasMember("model"))
                {
                  holders.push_back(&ov);
                  if (nr.depth >= 3)
                    holders.push_back(&ov);
                }
            }
          if (!holders.empty())
            {
              Value &ov = *holders[rng.below(holders.size())];
              std::vector<Value *> lists;
              std::vector<std::string> names;
              for (auto &m : ov.GetObject())
                if (m.value.IsArray())
                  {
                    lists.push_back(&m.value);
                    names.push_back(m.name.GetString());
                  }
              const size_t li = rng.below(lists.size());
              Value &lv = *lists[li];
              const int how = static_cast<int>(rng.below(4));
              if (how == 0 && lv.Size() > 0)
                lv.PopBack();
              else if (how == 1)
                {
                  if (lv.Size() > 0)
                    {
                      Value c(lv[lv.Size() - 1], al);
                      lv.PushBack(c, al);
                    }
                  else
                    lv.PushBack(Value(1.0), al);
                }
              else if (how == 2)
                while (lv.Size() > 1)
                  lv.PopBack();
              else
                lv.Clear();
              ++applied;
              return "length " + names[li];
            }
        }
      if (rng.chance(0.06))
        {
          // the lists that give a feature its shape, emptied or cut down to one entry: the schema has little to
          // say about their lengths, the geometry code a lot
          static const char *shape[] = {"segments", "coordinates", "sections", "dip point"};
          std::vector<size_t> hits;
          for (size_t i = 0; i < nodes.size(); ++i)
            if (nodes[i].in_object && node_value(nodes[i]).IsArray())
              {
                const std::string k = node_key(nodes[i]);
                for (const char *t : shape)
                  if (k == t)
                    hits.push_back(i);
              }
          if (!hits.empty())
            {
              Value &lv = node_value(nodes[hits[rng.below(hits.size())]]);
              const bool empty = rng.chance(0.6);
              while (lv.Size() > (empty ? 0u : 1u))
                lv.PopBack();
              ++applied;
              return empty ? "shape-list-emptied" : "shape-list-cut";
            }
        }
      if (rng.chance(0.05) && d.IsObject() && d.HasMember("features") && d["features"].IsArray())
        {
          // a section's "coordinate" is an index into the feature's own "coordinates": put it right at the bound
          // (n-1 is the last valid one, n and n+1 are the off-by-one and off-by-two a lookup table gets wrong);
          // far-away values are already among the edge values, but an index 65536 past a small vector lands in
          // memory no sanitizer owns, while n and n+1 land in the redzone
          std::vector<Value *> feats;
          for (auto &f : d["features"].GetArray())
            if (f.IsObject() && f.HasMember("coordinates") && f["coordinates"].IsArray() && f.HasMember("model") && f["model"].IsString())
              {
                const std::string m = f["model"].GetString();
                if ((f.HasMember("sections") && f["sections"].IsArray()) || m == "fault" || m == "subducting plate")
                  feats.push_back(&f);
              }
          if (!feats.empty())
            {
              Value &f = *feats[rng.below(feats.size())];
              const int ncoord = static_cast<int>(f["coordinates"].Size());
              static const int delta[] = {0, 0, 1, 1, 2, -1};
              const int idx = std::max(0, ncoord + delta[rng.below(6)]);
              if (!f.HasMember("sections") || !f["sections"].IsArray())
                {
                  if (f.HasMember("sections"))
                    f.RemoveMember("sections");
                  Value k("sections", al), arr(kArrayType);
                  f.AddMember(k, arr, al);
                }
              Value &secs = f["sections"];
              Value *sec = nullptr;
              for (auto &s : secs.GetArray())
                if (s.IsObject() && rng.chance(0.7))
                  {
                    sec = &s;
                    break;
                  }
              if (sec == nullptr)
                {
                  Value s(kObjectType);
                  // a section that repeats the feature's own segments is a complete, acceptable section when its index is valid
                  if (f.HasMember("segments") && rng.chance(0.8))
                    {
                      Value k("segments", al), c(f["segments"], al);
                      s.AddMember(k, c, al);
                    }
                  secs.PushBack(s, al);
                  sec = &secs[secs.Size() - 1];
                }
              if (sec->HasMember("coordinate"))
                sec->RemoveMember("coordinate");
              Value k("coordinate", al);
              sec->AddMember(k, Value(idx), al);
              ++applied;
              return "section-index-at-bound";
            }
        }
      // bias towards arrays (list-valued parameters that have to agree in length)
      NodeRef n = nodes[rng.below(nodes.size())];
      if (rng.chance(0.45))
        {
          // the list-valued siblings the parameter documentation says must agree with each other
          static const char *targets[] = {"ridge coordinates", "spreading velocity", "subducting velocity", "cross section depths", "semi-major axis",
                                          "eccentricity", "rotation angles", "compositions", "fractions", "grain sizes", "normalize grain sizes",
                                          "deflections", "depths", "centerline temperatures", "gaussian sigmas", "segments", "sections", "coordinates",
                                          "thickness", "angle", "top truncation", "min value", "max value", "rotation matrices", "Euler angles z-x-z",
                                          "basis rotation matrices", "basis Euler angles z-x-z", "top fractions", "bottom fractions", "center fractions",
                                          "side fractions", "min depth", "max depth", "dip point", "cross section", "velocity", "coordinate", "number of points in spline",
                                          "random number seed", "plate age", "length"
                                         };
          std::vector<size_t> hits;
          for (size_t i = 0; i < nodes.size(); ++i)
            if (nodes[i].in_object)
              {
                const std::string k = node_key(nodes[i]);
                for (const char *t : targets)
                  if (k == t)
                    hits.push_back(i);
              }
          if (!hits.empty())
            {
              n = nodes[hits[rng.below(hits.size())]];
              // sometimes descend one level into the list
              Value &tv = node_value(n);
              if (tv.IsArray() && tv.Size() > 0 && rng.chance(0.3))
                n = NodeRef {&tv, false, static_cast<SizeType>(rng.below(tv.Size())), n.depth + 1};
            }
        }
      else
        for (int tries = 0; tries < 6 && rng.chance(0.6); ++tries)
        {
          const NodeRef c = nodes[rng.below(nodes.size())];
          if (node_value(c).IsArray())
            {
              n = c;
              break;
            }
        }
      Value &v = node_value(n);
      const std::string key = node_key(n);
      // an operator that applies to this kind of value (0 delete, 1 duplicate, 2 rename, 3 retype, 4 empty,
      // 5 truncate, 6 extend, 7/8 edge value, 9 string, 10 version, 11 nest, 12 scale)
      int kind;
      if (rng.chance(0.05))
        kind = 10;
      else if (v.IsArray())
        {
          static const int k[] = {0, 1, 2, 3, 4, 5, 5, 5, 6, 6, 11};
          kind = k[rng.below(11)];
        }
      else if (v.IsNumber())
        {
          static const int k[] = {0, 1, 3, 7, 7, 8, 12, 12, 11};
          kind = k[rng.below(9)];
        }
      else if (v.IsString())
        {
          static const int k[] = {0, 2, 3, 9, 9, 9};
          kind = k[rng.below(6)];
        }
      else
        {
          static const int k[] = {0, 1, 2, 3, 11};
          kind = k[rng.below(5)];
        }
      std::string what;
      switch (kind)
        {
          case 0: // delete
            if (n.in_object)
              n.parent->RemoveMember(n.parent->MemberBegin() + n.index);
            else
              n.parent->Erase(n.parent->Begin() + n.index);
            what = "delete " + key;
            break;
          case 1: // duplicate key / element
            if (n.in_object)
              {
                Value k(key.c_str(), al), c(v, al);
                n.parent->AddMember(k, c, al);
              }
            else
              {
                Value c(v, al);
                n.parent->PushBack(c, al);
              }
            what = "duplicate " + key;
            break;
          case 2: // rename key
            if (n.in_object)
              {
                static const char *names[] = {"modle", "Model", "max depth", "min depth", "compositions", "coordinates", "unknown key", ""};
                (n.parent->MemberBegin() + n.index)->name.SetString(names[rng.below(8)], al);
                what = "rename " + key;
              }
            break;
          case 3: // swap the value's JSON type
          {
            const int t = static_cast<int>(rng.below(7));
            if (t == 0) v.SetString("text", al);
            else if (t == 1) v.SetDouble(rng.real(-10, 10));
            else if (t == 2) v.SetArray();
            else if (t == 3) v.SetObject();
            else if (t == 4) v.SetBool(rng.chance(0.5));
            else if (t == 5) v.SetNull();
            else v.SetInt(static_cast<int>(rng.range(-3, 3)));
            what = "retype " + key;
            break;
          }
          case 4: // empty an array
            if (v.IsArray())
              {
                v.Clear();
                what = "empty " + key;
              }
            break;
          case 5: // truncate an array: drop the last element, or keep only 0, 1 or 2 elements
            if (v.IsArray() && v.Size() > 0)
              {
                if (rng.chance(0.5))
                  v.PopBack();
                else
                  {
                    const SizeType keep = static_cast<SizeType>(rng.below(3));
                    while (v.Size() > keep)
                      v.PopBack();
                  }
                what = "truncate " + key;
              }
            break;
          case 6: // extend an array
            if (v.IsArray() && v.Size() > 0)
              {
                Value c(v[v.Size() - 1], al);
                v.PushBack(c, al);
                what = "extend " + key;
              }
            else if (v.IsArray())
              {
                v.PushBack(Value(1.0), al);
                what = "extend " + key;
              }
            break;
          case 7: // numeric edge value
          case 8:
            if (v.IsNumber() && !work_multiplier(key))
              {
                static const double edge[] = {0.0, -0.0, -1.0, 1.0, 1e308, -1e308, 5e-324, 1e-300, 1e30, -1e30, 2147483648.0, 4294967296.0, 1e19,
                                              std::numeric_limits<double>::quiet_NaN(), std::numeric_limits<double>::infinity(), -std::numeric_limits<double>::infinity(),
                                              2.0, 3.0, 4.0, 5.0, 7.0, 1e9, 65536.0, 1e6
                                             };
                const double ev = edge[rng.below(24)];
                // index-like parameters stay integers so that they pass the type check and reach the code
                if (v.IsInt() || v.IsUint())
                  {
                    if (ev == std::floor(ev) && std::fabs(ev) < 2e9)
                      v.SetInt(static_cast<int>(ev));
                    else
                      v.SetDouble(ev);
                  }
                else
                  v.SetDouble(ev);
                what = "edge value " + key;
              }
            else if (v.IsNumber())
              {
                v.SetDouble(rng.chance(0.5) ? 0.0 : -1.0);
                what = "edge value " + key;
              }
            break;
          case 9: // unknown model name / option string
            if (v.IsString())
              {
                static const char *names[] = {"", "unknown", "uniform", "linear", "random", "spherical", "cartesian", "continuous", "replace", "global", "none", "plume", "fault", "mass conserving", "2.0", "1.1"};
                v.SetString(names[rng.below(16)], al);
                what = "string " + key;
              }
            break;
          case 10: // version
            if (d.IsObject() && d.HasMember("version"))
              {
                static const char *vs[] = {"1.0", "1.2", "2.0", "", "1.1.0", "0.5", "11"};
                if (rng.chance(0.8))
                  d["version"].SetString(vs[rng.below(7)], al);
                else
                  d["version"].SetDouble(1.1);
                what = "version";
              }
            break;
          case 11: // wrap in nested arrays
          {
            const int depth = static_cast<int>(rng.range(1, 40));
            Value cur(v, al);
            for (int i = 0; i < depth; ++i)
              {
                Value a(kArrayType);
                a.PushBack(cur, al);
                cur = a;
              }
            v = cur;
            what = "nest " + key;
            break;
          }
          default: // change an integer-like number a little (list indices, composition labels, sizes)
            if (v.IsNumber())
              {
                if (work_multiplier(key))
                  break;
                const double x = v.GetDouble();
                static const double f[] = {-1, 0, 0.5, 2, 10, 1000};
                v.SetDouble(x * f[rng.below(6)]);
                what = "scale " + key;
              }
            break;
        }
      if (!what.empty())
        ++applied;
      return what;
    }

    std::string serialise(const Document &d, bool pretty)
    {
      StringBuffer sb;
      if (pretty)
        {
          PrettyWriter<StringBuffer, UTF8<>, UTF8<>, CrtAllocator, kWriteNanAndInfFlag> w(sb);
          d.Accept(w);
        }
      else
        {
          Writer<StringBuffer, UTF8<>, UTF8<>, CrtAllocator, kWriteNanAndInfFlag> w(sb);
          d.Accept(w);
        }
      return std::string(sb.GetString(), sb.GetSize());
    }

    void permute_keys(Value &v, Rng &rng, Document::AllocatorType &al, int depth)
    {
      if (depth > 30)
        return;
      if (v.IsObject())
        {
          std::vector<std::pair<Value, Value>> members;
          for (auto it = v.MemberBegin(); it != v.MemberEnd(); ++it)
            {
              permute_keys(it->value, rng, al, depth + 1);
              members.emplace_back(Value(it->name, al), Value(it->value, al));
            }
          for (size_t i = members.size(); i > 1; --i)
            std::swap(members[i - 1], members[rng.below(i)]);
          v.RemoveAllMembers();
          for (auto &m : members)
            v.AddMember(m.first, m.second, al);
        }
      else if (v.IsArray())
        for (auto &e : v.GetArray())
          permute_keys(e, rng, al, depth + 1);
    }

    std::string insert_comments(const std::string &json, Rng &rng)
    {
      // comments may appear wherever whitespace may: after ',' '{' '[' outside strings
      std::string out;
      bool in_string = false;
      for (size_t i = 0; i < json.size(); ++i)
        {
          const char c = json[i];
          out.push_back(c);
          if (c == '"' && (i == 0 || json[i - 1] != '\\'))
            in_string = !in_string;
          if (!in_string && (c == ',' || c == '{' || c == '[') && rng.chance(0.05))
            out += rng.chance(0.5) ? " /* a comment, with \"quotes\" and [brackets] */ " : " // line comment {\n";
        }
      return out;
    }

    // ---- text-level reformatter: raw tokens in, raw tokens out
    struct RawNode
    {
      char type = 's'; // 'o' object, 'a' array, 's' scalar (raw text, strings included)
      std::string raw;
      std::vector<std::pair<std::string, RawNode>> members;
      std::vector<RawNode> elems;
    };

    struct RawParser
    {
      const std::string &t;
      size_t i = 0;
      bool ok = true;
      explicit RawParser(const std::string &text) : t(text) {}
      void skip()
      {
        for (;;)
          {
            while (i < t.size() && (t[i] == ' ' || t[i] == '\n' || t[i] == '\r' || t[i] == '\t'))
              ++i;
            if (i + 1 < t.size() && t[i] == '/' && t[i + 1] == '/')
              {
                while (i < t.size() && t[i] != '\n')
                  ++i;
              }
            else if (i + 1 < t.size() && t[i] == '/' && t[i + 1] == '*')
              {
                i += 2;
                while (i + 1 < t.size() && !(t[i] == '*' && t[i + 1] == '/'))
                  ++i;
                i += 2;
              }
            else
              break;
          }
      }
      std::string str()
      {
        const size_t b = i;
        ++i;
        while (i < t.size() && t[i] != '"')
          {
            if (t[i] == '\\')
              ++i;
            ++i;
          }
        ++i;
        if (i > t.size())
          {
            ok = false;
            i = t.size();
          }
        return t.substr(b, i - b);
      }
      RawNode value(int depth)
      {
        RawNode n;
        skip();
        if (depth > 100 || i >= t.size())
          {
            ok = false;
            return n;
          }
        if (t[i] == '{')
          {
            n.type = 'o';
            ++i;
            skip();
            while (ok && i < t.size() && t[i] != '}')
              {
                if (t[i] != '"')
                  {
                    ok = false;
                    break;
                  }
                const std::string k = str();
                skip();
                if (i >= t.size() || t[i] != ':')
                  {
                    ok = false;
                    break;
                  }
                ++i;
                n.members.emplace_back(k, value(depth + 1));
                skip();
                if (i < t.size() && t[i] == ',')
                  {
                    ++i;
                    skip();
                  }
              }
            ++i;
          }
        else if (t[i] == '[')
          {
            n.type = 'a';
            ++i;
            skip();
            while (ok && i < t.size() && t[i] != ']')
              {
                n.elems.push_back(value(depth + 1));
                skip();
                if (i < t.size() && t[i] == ',')
                  {
                    ++i;
                    skip();
                  }
              }
            ++i;
          }
        else if (t[i] == '"')
          n.raw = str();
        else
          {
            const size_t b = i;
            while (i < t.size() && std::string(",]} \n\r\t/").find(t[i]) == std::string::npos)
              ++i;
            n.raw = t.substr(b, i - b);
            if (n.raw.empty())
              ok = false;
          }
        return n;
      }
    };

    std::string ws(Rng &rng)
    {
      static const char *w[] = {"", "", " ", "\n", "\n  ", "\t", " \n ", "  ", " /* c */ ", " // c [\n"};
      return w[rng.below(rng.chance(0.9) ? 8 : 10)];
    }

    void emit(const RawNode &n, Rng &rng, bool permute, std::string &out)
    {
      if (n.type == 's')
        {
          out += n.raw;
          return;
        }
      if (n.type == 'a')
        {
          out += "[" + ws(rng);
          for (size_t k = 0; k < n.elems.size(); ++k)
            {
              if (k)
                out += ws(rng) + "," + ws(rng);
              emit(n.elems[k], rng, permute, out);
            }
          out += ws(rng) + "]";
          return;
        }
      std::vector<size_t> order(n.members.size());
      for (size_t k = 0; k < order.size(); ++k)
        order[k] = k;
      bool unique = true;
      for (size_t a = 0; a < n.members.size(); ++a)
        for (size_t b = a + 1; b < n.members.size(); ++b)
          if (n.members[a].first == n.members[b].first)
            unique = false;
      if (permute && unique)
        for (size_t k = order.size(); k > 1; --k)
          std::swap(order[k - 1], order[rng.below(k)]);
      out += "{" + ws(rng);
      for (size_t k = 0; k < order.size(); ++k)
        {
          if (k)
            out += ws(rng) + "," + ws(rng);
          out += n.members[order[k]].first + ws(rng) + ":" + ws(rng);
          emit(n.members[order[k]].second, rng, permute, out);
        }
      out += ws(rng) + "}";
    }

    std::string reformat_text(const std::string &json, Rng &rng)
    {
      RawParser p(json);
      const RawNode root = p.value(0);
      p.skip();
      if (!p.ok || p.i < json.size())
        return json;
      std::string out = ws(rng);
      emit(root, rng, rng.chance(0.7), out);
      out += ws(rng);
      return out;
    }

    // list-length rules from the parameter documentation; only judged when every key involved is present
    bool length_rules_ok(const Value &v, std::string &rule, int depth = 0)
    {
      if (depth > 40)
        return true;
      if (v.IsObject())
        {
          auto len = [&](const char *k) -> long
          {
            if (!v.HasMember(k) || !v[k].IsArray())
              return -1;
            return static_cast<long>(v[k].Size());
          };
          const std::string model = (v.HasMember("model") && v["model"].IsString()) ? v["model"].GetString() : "";
          if (model == "plume" && v.HasMember("coordinates"))
            {
              const long n = len("coordinates");
              static const char *keys[] = {"cross section depths", "semi-major axis", "eccentricity", "rotation angles"};
              for (const char *k : keys)
                if (len(k) >= 0 && n >= 0 && len(k) != n)
                  {
                    rule = std::string("plume: '") + k + "' has " + std::to_string(len(k)) + " entries for " + std::to_string(n) + " coordinates";
                    return false;
                  }
            }
          if (model == "gaussian")
            {
              const long n = len("centerline temperatures");
              if (n >= 0 && len("depths") >= 0 && len("depths") != n)
                {
                  rule = "gaussian: depths vs centerline temperatures";
                  return false;
                }
              if (n >= 0 && len("gaussian sigmas") >= 0 && len("gaussian sigmas") != n)
                {
                  rule = "gaussian: gaussian sigmas vs centerline temperatures";
                  return false;
                }
            }
          if (model == "uniform" || model == "random" || model.find("random uniform distribution") == 0 || model == "smooth")
            {
              const long n = len("compositions");
              static const char *keys[] = {"fractions", "grain sizes", "normalize grain sizes", "deflections", "rotation matrices", "Euler angles z-x-z",
                                           "basis rotation matrices", "basis Euler angles z-x-z", "top fractions", "bottom fractions", "center fractions", "side fractions"
                                          };
              for (const char *k : keys)
                if (n >= 0 && len(k) >= 0 && len(k) != n)
                  {
                    rule = model + ": '" + k + "' has " + std::to_string(len(k)) + " entries for " + std::to_string(n) + " compositions";
                    return false;
                  }
            }
          for (auto &m : v.GetObject())
            {
              // of members with the same name only the first is ever read (rapidjson's FindMember)
              if (&v.FindMember(m.name)->value != &m.value)
                continue;
              // model lists at the feature level of a slab or fault are only defaults for segments that
              // declare none of that kind; unused defaults are never parsed, so nothing is demanded of them
              const std::string mk = m.name.GetString();
              if ((model == "subducting plate" || model == "fault") && mk.size() > 7 && mk.compare(mk.size() - 7, 7, " models") == 0)
                {
                  bool used = false;
                  if (v.HasMember("segments") && v["segments"].IsArray())
                    for (auto &seg : v["segments"].GetArray())
                      if (seg.IsObject() && !seg.HasMember(mk.c_str()))
                        used = true;
                  if (!used)
                    continue;
                }
              if (!length_rules_ok(m.value, rule, depth + 1))
                return false;
            }
        }
      else if (v.IsArray())
        for (auto &e : v.GetArray())
          if (!length_rules_ok(e, rule, depth + 1))
            return false;
      return true;
    }

    // what the property demands of a delivered byte string: "" = nothing, else the reason it must be rejected
    std::string must_reject(const std::string &bytes)
    {
      Document d;
      d.Parse<PARSE_FLAGS>(bytes.c_str(), bytes.size());
      if (d.HasParseError())
        return "not-json";
      if (!d.IsObject())
        return "not-an-object";
      bool usable = false;
      if (!schema_valid(d, usable))
        return "schema";
      if (!doc_schema_valid(d))
        return "doc-schema";
      if (d.HasMember("version") && d["version"].IsString() && std::string(d["version"].GetString()) != "1.1")
        return "version";
      std::string rule;
      if (!length_rules_ok(d, rule))
        return "lengths";
      return "";
    }
  }

  // Cold start: the scenario is the first thing a fresh process does. Several threads build their first worlds
  // at the same time (valid and invalid documents mixed), query and destroy them. Anything a process sets up
  // lazily on its first construction is set up here under the scheduler, with ThreadSanitizer watching.
  bool gen_c12_cold(uint64_t seed, uint64_t run, const std::string &tier, Scenario &s)
  {
    (void) tier;
    const uint64_t rs = hash_mix(seed, run);
    Rng rng = stream(rs, "workload");
    s.property = "C12";
    s.seed = seed;
    s.run = run;
    s.generator = "c12/cold-threads";
    s.cold = true;
    const auto &cat = corpus();
    const auto &ok = corpus_buildable(true, false);
    const int T = static_cast<int>(rng.range(2, 5));
    for (int t = 0; t < T; ++t)
      {
        WorldInfo w;
        if (!ok.empty() && rng.chance(0.6))
          w = cat[ok[rng.below(ok.size())]];
        else
          {
            GenWorld g = rng.chance(0.5) ? gen_rich_world(rng, false) : gen_random_world(rng);
            w = analyse_world("gen.wb", g.json);
          }
        const bool buildable = w.content.find("\"continuous\"") == std::string::npos;
        std::string bytes = w.content;
        std::string expect = buildable ? "accept" : "";
        if (rng.chance(0.35))
          {
            Document d;
            d.Parse<PARSE_FLAGS>(bytes.c_str(), bytes.size());
            if (!d.HasParseError())
              {
                int applied = 0;
                mutate(d, rng, applied);
                bytes = serialise(d, false);
                expect = must_reject(bytes).empty() ? "" : "reject";
              }
          }
        const std::string path = "/simfs/t" + std::to_string(t) + ".wb";
        s.files[path] = bytes;
        std::vector<Op> ops;
        const int rounds = static_cast<int>(rng.range(1, 2));
        for (int k = 0; k < rounds; ++k)
          {
            Op c;
            c.op = "create";
            c.h = t;
            c.file = path;
            c.note = "own";
            c.expect = expect;
            ops.push_back(c);
            const int nq = static_cast<int>(rng.range(0, 3));
            Slot slot;
            for (int i = 0; i < nq; ++i)
              {
                Op q;
                fill_query(q, w, slot, rng, false, !w.random);
                q.h = t;
                q.noref = true;
                ops.push_back(q);
              }
            Op d;
            d.op = "destroy";
            d.h = t;
            d.note = "own";
            ops.push_back(d);
          }
        s.threads.push_back(ops);
      }
    // ThreadSanitizer only reports a pair of accesses when the earlier one is among the other thread's last
    // couple of million events, so a schedule that lets a thread run on for long after each switch point sees
    // little: most cold starts use the uniformly random strategy or short round-robin slices
    Rng srng = stream(rs, "schedule");
    s.sched = random_sched(srng, T);
    const double pick = srng.real();
    if (pick < 0.6)
      s.sched.strategy = S_RANDOM;
    else if (pick < 0.8)
      {
        s.sched.strategy = S_RR;
        s.sched.quantum = static_cast<int>(srng.range(2, 4));
      }
    return true;
  }

  bool gen_c12(uint64_t seed, uint64_t run, const std::string &tier, Scenario &s)
  {
    (void) tier;
    const uint64_t rs = hash_mix(seed, run);
    Rng rng = stream(rs, "workload");
    Rng frng = stream(rs, "faults");
    s.property = "C12";
    s.seed = seed;
    s.run = run;
    s.oracle = "stateless";
    const auto &cat = corpus();
    const auto &ok = corpus_buildable(true, false);
    // base document
    WorldInfo base;
    const double bsel = rng.real();
    // documents kept from repaired findings (corpus/verif_regression_*.wb): nothing is expected of them except
    // what is expected of any byte string - built or refused with a message, never a crash or a hang
    bool regression_doc = false;
    std::vector<size_t> regress;
    for (size_t i = 0; i < cat.size(); ++i)
      if (cat[i].name.find("verif_regression_") == 0)
        regress.push_back(i);
    if (bsel < 0.015 && !regress.empty())
      {
        base = cat[regress[rng.below(regress.size())]];
        regression_doc = true;
      }
    else if (bsel < 0.5 && !ok.empty())
      base = cat[ok[rng.below(ok.size())]];
    else
      {
        GenWorld g = bsel < 0.66 ? gen_rich_world(rng, false) : bsel < 0.75 ? gen_rich_world(rng, true) : (bsel < 0.85 ? gen_random_world(rng) : (bsel < 0.93 ? gen_slab_world(rng) : gen_surface_world(rng)));
        base = analyse_world("gen.wb", g.json);
      }
    const std::string intact = "/simfs/intact.wb", doc = "/simfs/doc.wb", variant = "/simfs/variant.wb";
    const bool base_buildable = !regression_doc && base.content.find("\"continuous\"") == std::string::npos;
    if (base_buildable && rng.chance(0.06))
      {
        // several threads build (and query, and destroy) worlds of their own at the same time: constructors
        // share nothing by contract, so neither a ThreadSanitizer report nor a refused valid file is acceptable
        s.generator = "c12/threads";
        s.oracle.clear();
        const int T = static_cast<int>(rng.range(2, 4));
        for (int t = 0; t < T; ++t)
          {
            WorldInfo w = base;
            if (t > 0 && !ok.empty() && rng.chance(0.7))
              w = cat[ok[rng.below(ok.size())]];
            const std::string path = "/simfs/t" + std::to_string(t) + ".wb";
            s.files[path] = w.content;
            std::vector<Op> ops;
            const int rounds = static_cast<int>(rng.range(1, 2));
            for (int k = 0; k < rounds; ++k)
              {
                Op c;
                c.op = "create";
                c.h = t;
                c.file = path;
                c.note = "own";
                c.expect = "accept";
                ops.push_back(c);
                const int nq = static_cast<int>(rng.range(1, 4));
                for (int i = 0; i < nq; ++i)
                  {
                    Op q;
                    Slot dummy;
                    fill_query(q, w, dummy, rng, false, !w.random);
                    q.h = t;
                    q.noref = true;
                    ops.push_back(q);
                  }
                Op d;
                d.op = "destroy";
                d.h = t;
                d.note = "own";
                ops.push_back(d);
              }
            s.threads.push_back(ops);
          }
        Rng srng = stream(rs, "schedule");
        s.sched = random_sched(srng, T);
        return true;
      }
    if (base_buildable && rng.chance(0.05))
      {
        // the file is replaced by an invalid document of the same length (and, on the simulated disk, the same
        // modification time) between two constructions from the same path
        s.generator = "c12/rewrite";
        s.oracle.clear();
        std::string bad = base.content;
        const size_t vpos = bad.find("\"1.1\"");
        const size_t mpos = bad.find("\"model\"");
        if (vpos != std::string::npos && (mpos == std::string::npos || rng.chance(0.5)))
          bad.replace(vpos, 5, "\"1.7\"");
        else if (mpos != std::string::npos)
          bad.replace(mpos, 7, "\"modle\"");
        else
          bad[bad.size() / 2] = '}' ;
        s.files[doc] = base.content;
        s.files["/simfs/doc.v2"] = bad;
        Op c1;
        c1.op = "create";
        c1.h = 0;
        c1.file = doc;
        c1.expect = "accept";
        c1.note = "before-rewrite";
        s.ops.push_back(c1);
        Op q;
        Slot dummy;
        fill_query(q, base, dummy, rng, false, !base.random);
        q.h = 0;
        q.noref = true;
        s.ops.push_back(q);
        if (rng.chance(0.5))
          {
            Op d;
            d.op = "destroy";
            d.h = 0;
            s.ops.push_back(d);
          }
        Op put;
        put.op = "put";
        put.file = doc;
        put.name = "/simfs/doc.v2";
        s.ops.push_back(put);
        Op c2;
        c2.op = "create";
        c2.h = 1;
        c2.file = doc;
        c2.expect = must_reject(bad).empty() ? "" : "reject";
        c2.note = "after-rewrite";
        s.ops.push_back(c2);
        s.ops.push_back(q);
        return true;
      }
    s.files[intact] = base.content;
    const double mode = rng.real();
    std::string bytes = base.content;
    std::string label = "intact";
    int applied = 0;
    Op c;
    c.op = "create";
    c.h = 0;
    c.file = doc;
    if (mode < 0.45)
      {
        // structural mutations
        Document d;
        d.Parse<PARSE_FLAGS>(base.content.c_str(), base.content.size());
        if (!d.HasParseError())
          {
            const int n = static_cast<int>(rng.range(1, 3));
            label = "mutate:";
            for (int i = 0; i < n; ++i)
              label += mutate(d, rng, applied) + ";";
            bytes = serialise(d, rng.chance(0.3));
          }
        s.generator = "c12/mutate";
      }
    else if (mode < 0.8)
      {
        // file-layer faults on an intact or mutated document
        if (rng.chance(0.3))
          {
            Document d;
            d.Parse<PARSE_FLAGS>(base.content.c_str(), base.content.size());
            if (!d.HasParseError())
              {
                label = "mutate:" + mutate(d, rng, applied) + ";";
                bytes = serialise(d, false);
              }
          }
        const int nf = static_cast<int>(frng.range(1, 2));
        for (int i = 0; i < nf; ++i)
          {
            simfs::Fault f;
            f.path = doc;
            int k = static_cast<int>(frng.below(11));
            if (k >= 9)
              k = 6; // read errors are worth a larger share: they are the one fault whose handling nothing else exercises
            const long n = static_cast<long>(bytes.size());
            switch (k)
              {
                case 0:
                  f.kind = simfs::F_TRUNCATE;
                  f.a = frng.chance(0.2) ? frng.range(0, 3) : frng.range(0, std::max(1L, n));
                  break;
                case 1:
                  f.kind = simfs::F_FLIP;
                  f.a = frng.range(0, std::max(1L, n));
                  f.b = 1L << frng.below(8);
                  if (frng.chance(0.3))
                    {
                      // a stored byte in the tail of a key name becomes the lead byte of an incomplete multi-byte sequence
                      std::vector<long> ends;
                      for (long i = 4; i + 1 < n; ++i)
                        if (bytes[static_cast<size_t>(i)] == '"' && (bytes[static_cast<size_t>(i + 1)] == ':' || (bytes[static_cast<size_t>(i + 1)] == ' ' && i + 2 < n && bytes[static_cast<size_t>(i + 2)] == ':')))
                          ends.push_back(i);
                      if (!ends.empty())
                        {
                          f.a = ends[frng.below(ends.size())] - frng.range(1, 3);
                          f.b = 128;
                        }
                    }
                  break;
                case 2:
                  f.kind = simfs::F_ZERO_BLOCK;
                  f.a = frng.range(0, std::max(1L, n));
                  f.b = frng.range(1, 64);
                  break;
                case 3:
                  f.kind = simfs::F_DUP_BLOCK;
                  f.a = frng.range(0, std::max(1L, n));
                  f.b = frng.range(1, 200);
                  break;
                case 4:
                  f.kind = simfs::F_SHORT_READ;
                  f.a = frng.range(1, 64);
                  break;
                case 5:
                  f.kind = simfs::F_EINTR;
                  f.a = frng.range(1, 4);
                  break;
                case 6:
                  f.kind = simfs::F_EIO;
                  f.a = frng.range(1, 4);
                  // the error hits in the middle of the document: the reads before it deliver a part of it
                  if (frng.chance(0.7))
                    f.b = frng.chance(0.5) ? frng.range(1, 64) : frng.range(64, std::max(65L, n / 2));
                  break;
                case 7:
                  f.kind = simfs::F_OPEN_FAIL;
                  {
                    static const long errs[] = {2, 13, 24};
                    f.a = errs[frng.below(3)];
                  }
                  break;
                default:
                  f.kind = simfs::F_CHANGE_BETWEEN_OPENS;
                  // the first delivery is torn (parse error), the re-read for the error message sees another file
                  {
                    simfs::Fault t;
                    t.path = doc;
                    t.kind = simfs::F_TRUNCATE;
                    t.a = frng.range(0, std::max(1L, n));
                    c.faults.push_back(t);
                    const int how = static_cast<int>(frng.below(4));
                    if (how == 0)
                      f.bytes = "";
                    else if (how == 1)
                      f.bytes = bytes.substr(0, static_cast<size_t>(frng.range(0, std::max(1L, n / 4))));
                    else if (how == 2)
                      f.bytes = "{}";
                    else
                      f.bytes = bytes + bytes;
                  }
                  break;
              }
            c.faults.push_back(f);
          }
        s.generator = "c12/faults";
        label += " faults";
      }
    else if (mode < 0.88)
      {
        c.alloc_fail = frng.chance(0.5) ? frng.range(1, 400) : frng.range(1, 40000);
        s.generator = "c12/alloc";
        label = "bad_alloc";
      }
    else if (mode < 0.94)
      {
        // raw byte strings
        const int k = static_cast<int>(rng.below(10));
        if (k == 0) bytes = "";
        else if (k == 1) bytes = std::string(1, static_cast<char>(rng.below(256)));
        else if (k == 2) bytes = std::string(static_cast<size_t>(rng.range(1, 1 << 20)), '[');
        else if (k == 3) bytes = std::string(static_cast<size_t>(rng.range(1, 1 << 18)), '{');
        else if (k == 4)
          {
            bytes.clear();
            const size_t n = static_cast<size_t>(rng.range(1, 4096));
            for (size_t i = 0; i < n; ++i)
              bytes.push_back(static_cast<char>(rng.below(256)));
          }
        else if (k == 5) bytes = "{\"version\":\"1.1\",\"features\":[" + std::string(static_cast<size_t>(rng.range(1, 50000)), ' ') + "]}";
        else if (k == 8 || k == 9)
          {
            // deep nesting behind text that is easy to mis-scan: escaped quotes and backslashes at the end of
            // strings, quotes and brackets inside comments, brackets inside strings
            static const char *prefix[] = {"{\"a\":\"C:\\\\wb\\\\\",\"b\":", "{\"a\":\"say \\\"hi\\\"\",\"b\":", "/* \" [ */ {\"b\":", "// it's \" [[[\n{\"b\":",
                                           "{\"a\":\"]]]]}}}}\",\"b\":", "{\"a\":\"\\\\\\\"\",\"b\":", "{\"version\":\"1.1\",\"features\":[],\"x\":\"\\\\\",\"y\":"
                                          };
            bytes = prefix[rng.below(7)];
            const size_t n = static_cast<size_t>(rng.range(k == 8 ? 1500 : 100000, 1 << 20));
            bytes += std::string(n, rng.chance(0.5) ? '[' : '{');
            if (rng.chance(0.3))
              bytes += std::string(n, ']');
          }
        else if (k == 6) bytes = "\xef\xbb\xbf" + base.content;
        else bytes = "{\"version\":\"1.1\",\"features\":[],\"x\":\"\xff\xfe\x00\"}";
        s.generator = "c12/raw";
        label = "raw" + std::to_string(k);
      }
    else
      {
        s.generator = "c12/format";
        label = "format";
      }
    s.files[doc] = bytes;
    // what must happen
    bool stored_corruption_only = true, no_expectation = false;
    for (const auto &f : c.faults)
      {
        if (f.kind == simfs::F_EIO)
          no_expectation = true; // a device error delivers an unknown prefix; the property does not say what then
        if (f.kind == simfs::F_OPEN_FAIL)
          stored_corruption_only = false;
      }
    const std::string delivered = simfs::delivered_bytes(doc, bytes, c.faults, 0);
    const std::string why = must_reject(delivered);
    bool open_fails = false;
    for (const auto &f : c.faults)
      if (f.kind == simfs::F_OPEN_FAIL)
        open_fails = true;
    if (open_fails)
      c.expect = "reject";
    else if (!no_expectation && !why.empty() && c.alloc_fail == 0)
      c.expect = "reject";
    // delivery in pieces (short reads, an interrupted read) is not damage: an intact buildable document
    // has to build exactly as when it arrives in one piece
    bool delivery_only = !c.faults.empty();
    for (const auto &f : c.faults)
      if (f.kind != simfs::F_SHORT_READ && f.kind != simfs::F_EINTR)
        delivery_only = false;
    const bool base_is_refused = regression_doc || base.content.find("\"continuous\"") != std::string::npos;
    if (delivery_only && applied == 0 && bytes == base.content && why.empty() && !base_is_refused && c.alloc_fail == 0)
      c.expect = "accept";
    c.note = open_fails ? "open-fail" : (why.empty() ? (c.expect == "accept" ? "piecewise-delivery" : "valid") : why);
    (void) stored_corruption_only;
    (void) label;
    s.ops.push_back(c);
    // probe queries on whatever was built
    const WorldInfo w = analyse_world(doc, delivered.size() < (1u << 17) ? delivered : base.content);
    const WorldInfo &pw = w.parse_ok ? w : base;
    const int nq = static_cast<int>(rng.range(6, 16));
    for (int i = 0; i < nq; ++i)
      {
        Op q;
        Slot dummy;
        fill_query(q, pw, dummy, rng, false, true);
        q.h = 0;
        q.noref = true;
        s.ops.push_back(q);
      }
    // and at the surface right on the features' own coordinates (and between two of them): whatever shape a
    // damaged feature still has, this is where it is
    if (!base.coords.empty())
      for (int i = 0; i < 4; ++i)
        {
          const auto &c1 = base.coords[rng.below(base.coords.size())];
          const auto &c2 = rng.chance(0.5) ? c1 : base.coords[rng.below(base.coords.size())];
          static const double depths[] = {0.0, 1.0, 1000.0, 20000.0};
          const double depth = depths[rng.below(4)];
          Op q;
          q.op = "q3";
          natural_to_query(base, 0.5 * (c1[0] + c2[0]), 0.5 * (c1[1] + c2[1]), depth, q.p);
          q.d = depth;
          q.props = {Prop{{1, 0, 0}}, Prop{{2, 0, 0}}, Prop{{4, 0, 0}}};
          q.h = 0;
          q.noref = true;
          s.ops.push_back(q);
        }
    Op d0;
    d0.op = "destroy";
    d0.h = 0;
    s.ops.push_back(d0);
    // afterwards the intact file must still build and answer like a fresh world
    // a generated base document may name the one schema-valid option the library has to refuse
    const bool base_refused = base.content.find("\"continuous\"") != std::string::npos;
    Op ci;
    ci.op = "create";
    ci.h = 1;
    ci.file = intact;
    ci.expect = regression_doc ? "" : (base_refused ? "reject" : "accept");
    ci.note = regression_doc ? "regression-document" : (base_refused ? "unavailable-depth-method" : "intact-after");
    s.ops.push_back(ci);
    const bool fmt = s.generator == "c12/format" || rng.chance(0.15);
    if (fmt)
      {
        // same document, other formatting: whitespace, comments, key order; every number and string token is
        // kept character for character (re-serialising numbers would be a change of content, not of formatting)
        s.files[variant] = reformat_text(base.content, rng);
        Op cv;
        cv.op = "create";
        cv.h = 2;
        cv.file = variant;
        cv.expect = regression_doc ? "" : (base_refused ? "reject" : "accept");
        cv.note = base_refused ? "unavailable-depth-method" : "format-variant";
        s.ops.push_back(cv);
      }
    const int nq2 = static_cast<int>(rng.range(3, 8));
    for (int i = 0; i < nq2; ++i)
      {
        Op q;
        Slot dummy;
        fill_query(q, base, dummy, rng, false, !base.random);
        q.h = 1;
        if (fmt)
          q.eq = "fmt" + std::to_string(i);
        s.ops.push_back(q);
        if (fmt)
          {
            Op q2 = q;
            q2.h = 2;
            s.ops.push_back(q2);
          }
      }
    if (base.random || !rng.chance(0.3))
      s.oracle.clear(); // answers of random worlds depend on the history by design (C15)
    return true;
  }
}
