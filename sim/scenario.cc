#include "sim.h"

#include "rapidjson/document.h"
#include "rapidjson/prettywriter.h"
#include "rapidjson/stringbuffer.h"
#include "rapidjson/writer.h"

#include <cmath>
#include <cstdio>
#include <cstdlib>
#include <cstring>

using namespace rapidjson;

namespace sim
{
  std::string hexd(double v)
  {
    char buf[64];
    if (std::isnan(v))
      return "nan";
    if (std::isinf(v))
      return v > 0 ? "inf" : "-inf";
    // short decimal form when it round-trips, hex float otherwise
    std::snprintf(buf, sizeof(buf), "%.15g", v);
    if (std::strtod(buf, nullptr) == v && !(v == 0 && std::signbit(v)))
      return buf;
    std::snprintf(buf, sizeof(buf), "%a", v);
    return buf;
  }

  double unhexd(const std::string &s)
  {
    return std::strtod(s.c_str(), nullptr);
  }

  uint64_t fnv(const void *data, size_t n, uint64_t h)
  {
    const unsigned char *p = static_cast<const unsigned char *>(data);
    for (size_t i = 0; i < n; ++i)
      {
        h ^= p[i];
        h *= 1099511628211ULL;
      }
    return h;
  }

  namespace
  {
    bool is_texty(const std::string &s)
    {
      for (unsigned char c : s)
        if (!(c == 9 || c == 10 || c == 13 || (c >= 0x20 && c <= 0x7e)))
          return false;
      return true;
    }

    std::string to_hex(const std::string &s)
    {
      static const char *d = "0123456789abcdef";
      std::string r;
      r.reserve(s.size() * 2);
      for (unsigned char c : s)
        {
          r.push_back(d[c >> 4]);
          r.push_back(d[c & 15]);
        }
      return r;
    }

    std::string from_hex(const std::string &s)
    {
      std::string r;
      auto v = [](char c) -> int
      {
        if (c >= '0' && c <= '9') return c - '0';
        if (c >= 'a' && c <= 'f') return c - 'a' + 10;
        if (c >= 'A' && c <= 'F') return c - 'A' + 10;
        return 0;
      };
      for (size_t i = 0; i + 1 < s.size(); i += 2)
        r.push_back(static_cast<char>(v(s[i]) * 16 + v(s[i + 1])));
      return r;
    }

    template <class W>
    void write_bytes(W &w, const std::string &bytes)
    {
      w.StartObject();
      if (is_texty(bytes))
        {
          w.Key("text");
          w.String(bytes.data(), static_cast<SizeType>(bytes.size()));
        }
      else
        {
          w.Key("hex");
          const std::string h = to_hex(bytes);
          w.String(h.data(), static_cast<SizeType>(h.size()));
        }
      w.EndObject();
    }

    std::string read_bytes(const Value &v)
    {
      if (v.IsString())
        return std::string(v.GetString(), v.GetStringLength());
      if (v.IsObject())
        {
          if (v.HasMember("text") && v["text"].IsString())
            return std::string(v["text"].GetString(), v["text"].GetStringLength());
          if (v.HasMember("hex") && v["hex"].IsString())
            return from_hex(std::string(v["hex"].GetString(), v["hex"].GetStringLength()));
        }
      return "";
    }

    template <class W>
    void write_sched(W &w, const SchedParams &p, const std::vector<uint32_t> &script)
    {
      w.StartObject();
      w.Key("strategy");
      w.Int(p.strategy);
      w.Key("seed");
      w.Uint64(p.seed);
      w.Key("p_continue");
      w.Double(p.p_continue);
      w.Key("quantum");
      w.Int(p.quantum);
      w.Key("pct_d");
      w.Int(p.pct_d);
      w.Key("pct_k");
      w.Int(p.pct_k);
      w.Key("victim");
      w.Int(p.victim);
      if (p.preempt)
        {
          w.Key("preempt");
          w.Uint(p.preempt);
        }
      w.Key("step_cap");
      w.Uint(p.step_cap);
      w.Key("script");
      w.StartArray();
      for (auto x : script)
        w.Uint(x);
      w.EndArray();
      w.EndObject();
    }

    void read_sched(const Value &v, SchedParams &p, std::vector<uint32_t> &script)
    {
      if (!v.IsObject())
        return;
      if (v.HasMember("strategy")) p.strategy = v["strategy"].GetInt();
      if (v.HasMember("seed")) p.seed = v["seed"].GetUint64();
      if (v.HasMember("p_continue")) p.p_continue = v["p_continue"].GetDouble();
      if (v.HasMember("quantum")) p.quantum = v["quantum"].GetInt();
      if (v.HasMember("pct_d")) p.pct_d = v["pct_d"].GetInt();
      if (v.HasMember("pct_k")) p.pct_k = v["pct_k"].GetInt();
      if (v.HasMember("victim")) p.victim = v["victim"].GetInt();
      if (v.HasMember("step_cap")) p.step_cap = v["step_cap"].GetUint();
      if (v.HasMember("preempt")) p.preempt = v["preempt"].GetUint();
      script.clear();
      if (v.HasMember("script") && v["script"].IsArray())
        for (auto &x : v["script"].GetArray())
          script.push_back(x.GetUint());
      if (script.size() % 2)
        script.pop_back();
    }

    template <class W>
    void write_op(W &w, const Op &o)
    {
      w.StartObject();
      w.Key("op");
      w.String(o.op.c_str());
      if (o.h >= 0)
        {
          w.Key("h");
          w.Int(o.h);
        }
      if (o.op == "create")
        {
          w.Key("file");
          w.String(o.file.c_str());
          w.Key("seed");
          w.Uint64(o.seed);
          w.Key("kind");
          w.String(o.kind.c_str());
          w.Key("has_outdir");
          w.Int(o.has_outdir);
          w.Key("outdir");
          if (o.outdir_null)
            w.Null();
          else
            w.String(o.outdir.c_str());
          if (!o.expect.empty())
            {
              w.Key("expect");
              w.String(o.expect.c_str());
            }
        }
      if (o.mask)
        {
          w.Key("mask");
          w.Uint(o.mask);
        }
      if (!o.faults.empty())
        {
          w.Key("faults");
          w.StartArray();
          for (const auto &f : o.faults)
            {
              w.StartObject();
              w.Key("kind");
              w.String(simfs::fault_name(f.kind));
              w.Key("path");
              w.String(f.path.c_str());
              w.Key("a");
              w.Int64(f.a);
              w.Key("b");
              w.Int64(f.b);
              if (f.kind == simfs::F_CHANGE_BETWEEN_OPENS)
                {
                  w.Key("bytes");
                  write_bytes(w, f.bytes);
                }
              w.EndObject();
            }
          w.EndArray();
        }
      if (o.alloc_fail)
        {
          w.Key("alloc_fail");
          w.Int64(o.alloc_fail);
        }
      if (o.op == "q3" || o.op == "q2" || o.op == "dist")
        {
          w.Key("p");
          w.StartArray();
          const int n = (o.op == "q2") ? 2 : 3;
          for (int i = 0; i < n; ++i)
            w.String(hexd(o.p[i]).c_str());
          w.EndArray();
          w.Key("d");
          w.String(hexd(o.d).c_str());
        }
      if (o.op == "q3" || o.op == "q2" || o.op == "size")
        {
          w.Key("props");
          w.StartArray();
          for (const auto &p : o.props)
            {
              w.StartArray();
              w.Uint(p[0]);
              w.Uint(p[1]);
              w.Uint(p[2]);
              w.EndArray();
            }
          w.EndArray();
          if (o.via != "properties")
            {
              w.Key("via");
              w.String(o.via.c_str());
            }
        }
      if (o.op == "dist" || o.op == "put")
        {
          w.Key("name");
          w.String(o.name.c_str());
        }
      if (o.op == "put")
        {
          w.Key("file");
          w.String(o.file.c_str());
        }
      if (!o.eq.empty())
        {
          w.Key("eq");
          w.String(o.eq.c_str());
          if (o.tol != 0)
            {
              w.Key("tol");
              w.Double(o.tol);
            }
        }
      if (!o.neq.empty())
        {
          w.Key("neq");
          w.String(o.neq.c_str());
        }
      if (o.draws >= 0)
        {
          w.Key("draws");
          w.Int64(o.draws);
        }
      if (o.gc.on)
        {
          w.Key("gc");
          w.StartObject();
          w.Key("rot");
          w.Bool(o.gc.rot);
          w.Key("sum1");
          w.Bool(o.gc.sum1);
          w.Key("fixed");
          w.Bool(o.gc.fixed);
          w.Key("inside");
          w.Bool(o.gc.inside);
          w.Key("sizes");
          w.StartArray();
          for (double s : o.gc.sizes)
            w.String(hexd(s).c_str());
          w.EndArray();
          w.EndObject();
        }
      if (o.comp_check)
        {
          w.Key("comp_bounds");
          w.StartArray();
          w.String(hexd(o.comp_lo).c_str());
          w.String(hexd(o.comp_hi).c_str());
          w.EndArray();
        }
      if (o.op == "tool")
        {
          w.Key("tool");
          w.String(o.tool.c_str());
          w.Key("argv");
          w.StartArray();
          for (const auto &a : o.argv)
            w.String(a.c_str());
          w.EndArray();
          w.Key("sched");
          write_sched(w, o.sched, o.script);
        }
      if (o.noref)
        {
          w.Key("noref");
          w.Bool(true);
        }
      if (!o.note.empty())
        {
          w.Key("note");
          w.String(o.note.c_str());
        }
      w.EndObject();
    }

    void read_op(const Value &v, Op &o)
    {
      if (!v.IsObject())
        return;
      auto S = [&](const char *k, std::string &dst)
      {
        if (v.HasMember(k) && v[k].IsString())
          dst = std::string(v[k].GetString(), v[k].GetStringLength());
      };
      S("op", o.op);
      if (v.HasMember("h") && v["h"].IsInt()) o.h = v["h"].GetInt();
      S("file", o.file);
      if (v.HasMember("seed") && v["seed"].IsUint64()) o.seed = v["seed"].GetUint64();
      S("kind", o.kind);
      if (v.HasMember("has_outdir") && v["has_outdir"].IsInt()) o.has_outdir = v["has_outdir"].GetInt();
      if (v.HasMember("outdir"))
        {
          if (v["outdir"].IsString())
            {
              o.outdir_null = false;
              o.outdir = v["outdir"].GetString();
            }
          else
            o.outdir_null = true;
        }
      S("expect", o.expect);
      if (v.HasMember("mask") && v["mask"].IsUint()) o.mask = v["mask"].GetUint();
      if (v.HasMember("faults") && v["faults"].IsArray())
        for (auto &fv : v["faults"].GetArray())
          {
            if (!fv.IsObject() || !fv.HasMember("kind") || !fv["kind"].IsString())
              continue;
            simfs::Fault f;
            f.kind = simfs::fault_kind(fv["kind"].GetString());
            if (f.kind < 0)
              continue;
            if (fv.HasMember("path") && fv["path"].IsString()) f.path = fv["path"].GetString();
            if (fv.HasMember("a") && fv["a"].IsInt64()) f.a = fv["a"].GetInt64();
            if (fv.HasMember("b") && fv["b"].IsInt64()) f.b = fv["b"].GetInt64();
            if (fv.HasMember("bytes")) f.bytes = read_bytes(fv["bytes"]);
            o.faults.push_back(f);
          }
      if (v.HasMember("alloc_fail") && v["alloc_fail"].IsInt64()) o.alloc_fail = v["alloc_fail"].GetInt64();
      if (v.HasMember("p") && v["p"].IsArray())
        {
          int i = 0;
          for (auto &x : v["p"].GetArray())
            if (i < 3)
              o.p[i++] = x.IsString() ? unhexd(x.GetString()) : (x.IsNumber() ? x.GetDouble() : 0.0);
        }
      if (v.HasMember("d"))
        o.d = v["d"].IsString() ? unhexd(v["d"].GetString()) : (v["d"].IsNumber() ? v["d"].GetDouble() : 0.0);
      if (v.HasMember("props") && v["props"].IsArray())
        for (auto &pv : v["props"].GetArray())
          if (pv.IsArray() && pv.Size() == 3)
            o.props.push_back({{pv[0].GetUint(), pv[1].GetUint(), pv[2].GetUint()}});
      S("via", o.via);
      S("name", o.name);
      S("eq", o.eq);
      S("neq", o.neq);
      if (v.HasMember("tol") && v["tol"].IsNumber()) o.tol = v["tol"].GetDouble();
      if (v.HasMember("draws") && v["draws"].IsInt64()) o.draws = v["draws"].GetInt64();
      if (v.HasMember("gc") && v["gc"].IsObject())
        {
          const Value &g = v["gc"];
          o.gc.on = true;
          if (g.HasMember("rot")) o.gc.rot = g["rot"].GetBool();
          if (g.HasMember("sum1")) o.gc.sum1 = g["sum1"].GetBool();
          if (g.HasMember("fixed")) o.gc.fixed = g["fixed"].GetBool();
          if (g.HasMember("inside")) o.gc.inside = g["inside"].GetBool();
          if (g.HasMember("sizes") && g["sizes"].IsArray())
            for (auto &x : g["sizes"].GetArray())
              o.gc.sizes.push_back(x.IsString() ? unhexd(x.GetString()) : x.GetDouble());
        }
      if (v.HasMember("comp_bounds") && v["comp_bounds"].IsArray() && v["comp_bounds"].Size() == 2)
        {
          o.comp_check = true;
          o.comp_lo = unhexd(v["comp_bounds"][0].GetString());
          o.comp_hi = unhexd(v["comp_bounds"][1].GetString());
        }
      S("tool", o.tool);
      if (v.HasMember("argv") && v["argv"].IsArray())
        for (auto &a : v["argv"].GetArray())
          if (a.IsString())
            o.argv.push_back(a.GetString());
      if (v.HasMember("sched"))
        read_sched(v["sched"], o.sched, o.script);
      S("note", o.note);
      if (v.HasMember("noref") && v["noref"].IsBool()) o.noref = v["noref"].GetBool();
    }

    template <class W>
    void write_scenario(W &w, const Scenario &s)
    {
      w.StartObject();
      w.Key("property");
      w.String(s.property.c_str());
      w.Key("generator");
      w.String(s.generator.c_str());
      w.Key("seed");
      w.Uint64(s.seed);
      w.Key("run");
      w.Uint64(s.run);
      if (!s.oracle.empty())
        {
          w.Key("oracle");
          w.String(s.oracle.c_str());
        }
      if (s.alloc_recycle)
        {
          w.Key("alloc_recycle");
          w.Int(s.alloc_recycle);
        }
      if (s.cold)
        {
          w.Key("cold");
          w.Bool(true);
        }
      if (s.engine_model)
        {
          w.Key("engine_model");
          w.Bool(true);
        }
      w.Key("files");
      w.StartObject();
      for (const auto &f : s.files)
        {
          w.Key(f.first.c_str());
          write_bytes(w, f.second);
        }
      w.EndObject();
      w.Key("ops");
      w.StartArray();
      for (const auto &o : s.ops)
        write_op(w, o);
      w.EndArray();
      if (!s.threads.empty())
        {
          w.Key("threads");
          w.StartArray();
          for (const auto &t : s.threads)
            {
              w.StartArray();
              for (const auto &o : t)
                write_op(w, o);
              w.EndArray();
            }
          w.EndArray();
          w.Key("sched");
          write_sched(w, s.sched, s.script);
        }
      if (!s.probes.empty())
        {
          w.Key("probes");
          w.StartArray();
          for (const auto &p : s.probes)
            w.String(p.c_str());
          w.EndArray();
        }
      w.EndObject();
    }
  }

  std::string scenario_to_json(const Scenario &s, bool pretty)
  {
    StringBuffer sb;
    if (pretty)
      {
        PrettyWriter<StringBuffer> w(sb);
        w.SetIndent(' ', 1);
        w.SetFormatOptions(kFormatSingleLineArray);
        write_scenario(w, s);
      }
    else
      {
        Writer<StringBuffer> w(sb);
        write_scenario(w, s);
      }
    return std::string(sb.GetString(), sb.GetSize());
  }

  bool scenario_from_json(const std::string &json, Scenario &s, std::string &error)
  {
    Document d;
    d.Parse<kParseFullPrecisionFlag>(json.c_str(), json.size());
    if (d.HasParseError() || !d.IsObject())
      {
        error = "scenario is not a JSON object";
        return false;
      }
    s = Scenario();
    if (d.HasMember("property") && d["property"].IsString()) s.property = d["property"].GetString();
    if (d.HasMember("generator") && d["generator"].IsString()) s.generator = d["generator"].GetString();
    if (d.HasMember("seed") && d["seed"].IsUint64()) s.seed = d["seed"].GetUint64();
    if (d.HasMember("run") && d["run"].IsUint64()) s.run = d["run"].GetUint64();
    if (d.HasMember("oracle") && d["oracle"].IsString()) s.oracle = d["oracle"].GetString();
    if (d.HasMember("engine_model") && d["engine_model"].IsBool()) s.engine_model = d["engine_model"].GetBool();
    if (d.HasMember("cold") && d["cold"].IsBool()) s.cold = d["cold"].GetBool();
    if (d.HasMember("alloc_recycle") && d["alloc_recycle"].IsInt()) s.alloc_recycle = d["alloc_recycle"].GetInt();
    if (d.HasMember("files") && d["files"].IsObject())
      for (auto &m : d["files"].GetObject())
        s.files[m.name.GetString()] = read_bytes(m.value);
    if (d.HasMember("ops") && d["ops"].IsArray())
      for (auto &ov : d["ops"].GetArray())
        {
          Op o;
          read_op(ov, o);
          s.ops.push_back(o);
        }
    if (d.HasMember("threads") && d["threads"].IsArray())
      for (auto &tv : d["threads"].GetArray())
        {
          std::vector<Op> t;
          if (tv.IsArray())
            for (auto &ov : tv.GetArray())
              {
                Op o;
                read_op(ov, o);
                t.push_back(o);
              }
          s.threads.push_back(t);
        }
    if (d.HasMember("sched"))
      read_sched(d["sched"], s.sched, s.script);
    if (d.HasMember("probes") && d["probes"].IsArray())
      for (auto &p : d["probes"].GetArray())
        if (p.IsString())
          s.probes.push_back(p.GetString());
    return true;
  }

  std::string result_to_json(const RunResult &r, bool with_responses)
  {
    StringBuffer sb;
    Writer<StringBuffer> w(sb);
    w.StartObject();
    w.Key("hash");
    char hb[32];
    std::snprintf(hb, sizeof(hb), "%016llx", static_cast<unsigned long long>(r.hash));
    w.String(hb);
    w.Key("violations");
    w.StartArray();
    for (const auto &v : r.violations)
      {
        w.StartObject();
        w.Key("class");
        w.String(v.cls.c_str());
        w.Key("detail");
        w.String(v.detail.c_str());
        w.Key("site");
        w.String(v.site.c_str());
        w.Key("op");
        w.Int(v.op_index);
        w.EndObject();
      }
    w.EndArray();
    w.Key("counters");
    w.StartObject();
    for (const auto &c : r.counters)
      {
        w.Key(c.first.c_str());
        w.Int64(c.second);
      }
    w.EndObject();
    w.Key("sched");
    w.StartObject();
    std::snprintf(hb, sizeof(hb), "%016llx", static_cast<unsigned long long>(r.sched.trace_hash));
    w.Key("trace");
    w.String(hb);
    w.Key("decisions");
    w.Uint(r.sched.decisions);
    w.Key("points");
    w.Uint(r.sched.points);
    w.Key("switches");
    w.Uint(r.sched.switches);
    w.Key("tasks");
    w.Uint(r.sched.tasks);
    w.EndObject();
    w.Key("tsan");
    w.Uint(r.tsan_reports);
    // deviations from "continue the current task" (pairs step, task): a schedule as an explicit script
    w.Key("dev");
    w.StartArray();
    for (uint32_t i = 0; i < r.sched.n_dev && i < 20000 && r.sched.dev != nullptr; ++i)
      {
        w.Uint(r.sched_dev.size() > 2 * i + 1 ? r.sched_dev[2 * i] : 0);
        w.Uint(r.sched_dev.size() > 2 * i + 1 ? r.sched_dev[2 * i + 1] : 0);
      }
    w.EndArray();
    w.Key("tool_dev");
    w.StartArray();
    for (const auto &x : r.resp)
      {
        w.StartArray();
        for (auto d : x.sched_dev)
          w.Uint(d);
        w.EndArray();
      }
    w.EndArray();
    w.Key("tool_traces");
    w.StartArray();
    for (const auto &x : r.resp)
      if (x.sched.decisions > 0)
        {
          std::snprintf(hb, sizeof(hb), "%016llx", static_cast<unsigned long long>(x.sched.trace_hash));
          w.String(hb);
        }
    w.EndArray();
    if (with_responses)
      {
        auto wr = [&](const Resp &x)
        {
          w.StartObject();
          w.Key("status");
          w.Int(x.status);
          if (!x.what.empty())
            {
              w.Key("what");
              w.String(x.what.substr(0, 400).c_str());
            }
          w.Key("v");
          w.StartArray();
          for (size_t i = 0; i < x.v.size() && i < 64; ++i)
            w.String(hexd(x.v[i]).c_str());
          w.EndArray();
          if (!x.out.empty())
            {
              w.Key("out");
              w.String(x.out.substr(0, 2000).c_str());
            }
          if (!x.fx.empty())
            {
              w.Key("fx");
              w.StartArray();
              for (const auto &e : x.fx)
                {
                  w.StartArray();
                  w.String(e.path.c_str());
                  w.String(e.mode == 'w' ? "w" : "r");
                  w.Bool(e.opened);
                  w.Uint64(e.size);
                  w.EndArray();
                }
              w.EndArray();
            }
          w.Key("rc");
          w.Int(x.rc);
          w.EndObject();
        };
        w.Key("resp");
        w.StartArray();
        for (const auto &x : r.resp)
          wr(x);
        w.EndArray();
        if (!r.tresp.empty())
          {
            w.Key("tresp");
            w.StartArray();
            for (const auto &t : r.tresp)
              {
                w.StartArray();
                for (const auto &x : t)
                  wr(x);
                w.EndArray();
              }
            w.EndArray();
          }
      }
    w.EndObject();
    return std::string(sb.GetString(), sb.GetSize());
  }
}
