// gwb-grid's own main.cc, compiled into the simulator through macro seams:
// `std::thread` becomes std::sim_thread (scheduler-backed) and `main` becomes
// gwb_grid_main.  Every header main.cc includes is included first so that the
// macros only affect the tool's own code.  No change to /repo is needed.
#include "visualization/main.h"
#include "world_builder/assert.h"
#include "world_builder/coordinate_system.h"
#include "world_builder/nan.h"
#include "world_builder/point.h"
#include "world_builder/utilities.h"
#include "world_builder/world.h"
#include "world_builder/config.h"
#include "vtu11/vtu11.hpp"
#include <algorithm>
#include <array>
#include <cmath>
#include <fstream>
#include <iostream>
#include <iterator>
#include <limits>
#include <memory>
#include <sstream>
#include <string>
#include <thread>
#include <vector>

#include "sim_thread.h"
#include "sim.h"

namespace simthread
{
  unsigned created = 0;
  unsigned would_terminate = 0;
  unsigned worker_exceptions = 0;
}

#define thread sim_thread
#define main gwb_grid_main
#define find_command_line_option gwb_grid_find_command_line_option
#include "source/gwb-grid/main.cc"
#undef find_command_line_option
#undef main
#undef thread

namespace sim
{
  int run_gwb_grid(const std::vector<std::string> &args)
  {
    std::vector<std::vector<char>> store;
    std::vector<char *> argv;
    for (const auto &a : args)
      {
        store.emplace_back(a.begin(), a.end());
        store.back().push_back('\0');
      }
    for (auto &s : store)
      argv.push_back(s.data());
    argv.push_back(nullptr);
    return gwb_grid_main(static_cast<int>(args.size()), argv.data());
  }
  unsigned grid_threads_created()
  {
    return simthread::created;
  }
  unsigned grid_would_terminate()
  {
    return simthread::would_terminate;
  }
  unsigned grid_worker_exceptions()
  {
    return simthread::worker_exceptions;
  }
  void grid_reset_counters()
  {
    simthread::created = 0;
    simthread::would_terminate = 0;
    simthread::worker_exceptions = 0;
  }
}
