// Deterministic scheduler: real pthreads, parked on private futex words and
// released one at a time.  This translation unit is compiled WITHOUT any
// sanitizer and uses only raw futex syscalls, atomics builtins and fixed-size
// buffers, so its hand-offs create no happens-before edges in TSan's view:
// conflicting accesses of two sim threads are still reported as races even
// though the threads never run at the same time.
#ifndef SIM_SCHED_H
#define SIM_SCHED_H
#include <cstdint>
#include <cstddef>

namespace sim
{
  enum Strategy { S_RANDOM = 0, S_BURST = 1, S_RR = 2, S_PCT = 3, S_STARVE = 4, S_SCRIPT = 5, S_SEQ = 6 };

  enum Site { SITE_SPAWN = 100, SITE_JOIN = 101, SITE_EXIT = 102, SITE_OP = 103, SITE_IO = 104, SITE_PREEMPT = 105, SITE_LOCK = 106 };

  struct SchedParams
  {
    int strategy = S_SEQ;
    uint64_t seed = 1;
    double p_continue = 0.9;
    int quantum = 1;
    int pct_d = 1;       // number of priority change points
    int pct_k = 2000;    // assumed run length for PCT
    int victim = 1;      // task starved by S_STARVE
    uint32_t step_cap = 200000;
    // forced decision points inside the code under test (only in builds whose library is compiled with
    // -fsanitize-coverage=trace-pc-guard): one about every `preempt` control-flow edges, 0 = none
    uint32_t preempt = 0;
    const uint32_t *script = nullptr; // pairs (step, task) for S_SCRIPT
    size_t script_n = 0;              // number of pairs
  };

  struct SchedStats
  {
    uint64_t trace_hash = 0;
    uint32_t decisions = 0;     // decision points with more than one runnable task
    uint32_t points = 0;        // all decision points
    uint32_t switches = 0;      // points where the running task changed
    uint32_t tasks = 0;         // tasks created (main included)
    uint32_t unjoined = 0;      // tasks never joined by the program under test
    bool deadlock = false;
    bool cap_hit = false;
    bool dev_overflow = false;
    uint32_t n_dev = 0;         // deviations from "continue current task"
    const uint32_t *dev = nullptr; // pairs (step, task)
    uint32_t site_count[8] = {0,0,0,0,0,0,0,0}; // library yield sites 0..7
    uint32_t preemptions = 0;   // forced decision points taken inside the code under test
    bool preempt_on = false;    // the scenario asked for forced decision points
    uint64_t edges = 0;         // control-flow edges of the code under test executed while the scheduler was active
  };

  void sched_begin(const SchedParams &p);
  SchedStats sched_end();
  bool sched_active();
  int spawn(void (*fn)(void *), void *arg);
  // returns false if the join could not be performed (deadlock)
  bool join(int id);
  bool task_done(int id);
  void yield_point(int site);
  int current_task();
  // number of tasks other than the caller that are not finished
  unsigned unfinished_others();

  // buggify mask (bit i = shortcut site i disabled) and per-site fired counters
  void set_shortcut_mask(unsigned mask);
  unsigned shortcut_mask();
  unsigned long shortcut_fired(int site);
  void reset_shortcut_fired();
}
#endif
