// Scenario generators: everything a run does is materialised here from the
// run seed, before anything is executed.
#include "gen.h"

#include "rapidjson/document.h"
#include "rapidjson/stringbuffer.h"
#include "rapidjson/writer.h"

#include <algorithm>
#include <cctype>
#include <cstdio>
#include <cstdlib>
#include <cmath>
#include <sstream>

namespace sim
{
  SchedParams random_sched(Rng &rng, int ntasks_hint)
  {
    SchedParams p;
    p.seed = rng.next();
    static const double pc[] = {0.5, 0.9, 0.99};
    const int s = static_cast<int>(rng.below(10));
    if (s < 3)
      p.strategy = S_RANDOM;
    else if (s < 5)
      {
        p.strategy = S_BURST;
        p.p_continue = pc[rng.below(3)];
      }
    else if (s < 6)
      {
        p.strategy = S_RR;
        p.quantum = static_cast<int>(rng.range(1, 7));
      }
    else if (s < 8)
      {
        p.strategy = S_PCT;
        p.pct_d = static_cast<int>(rng.range(1, 3));
        p.pct_k = static_cast<int>(rng.range(50, 3000));
      }
    else
      {
        p.strategy = S_STARVE;
        p.victim = static_cast<int>(rng.range(1, std::max(1, ntasks_hint)));
        p.p_continue = pc[rng.below(3)];
      }
    p.step_cap = 200000;
    // forced decision points inside the code under test (they exist in the ThreadSanitizer build only, whose
    // library is compiled with coverage guards): every few hundred to every million control-flow edges, or none
    if (rng.chance(0.6))
      {
        static const uint32_t mean[] = {300, 1000, 3000, 10000, 30000, 100000, 300000, 1000000};
        p.preempt = mean[rng.below(8)];
      }
    return p;
  }

  namespace
  {
    void place_near_slab(const GenWorld &g, const SlabMeta &m, Rng &rng, double &x, double &y, double &depth, std::string &note);
  }

  // ------------------------------------------------------------------ C01
  // (Slot is declared in gen.h)
    void fill_query(Op &op, const WorldInfo &w, Slot &slot, Rng &rng, bool allow_invalid, bool allow_grains)
    {
      ProbePoint pp;
      if (!slot.used.empty() && rng.chance(0.3))
        pp = slot.used[rng.below(slot.used.size())];
      else
        {
          pp = probe_point(w, rng);
          if (slot.used.size() < 64)
            slot.used.push_back(pp);
        }
      const bool two = w.has_cs ? rng.chance(0.45) : rng.chance(0.03);
      op.op = two ? "q2" : "q3";
      if (two)
        {
          op.p[0] = pp.p2[0];
          op.p[1] = pp.p2[1];
          op.p[2] = 0;
        }
      else
        for (int i = 0; i < 3; ++i)
          op.p[i] = pp.p3[i];
      op.d = pp.depth;
      const double v = rng.real();
      if (v < 0.75)
        {
          op.via = "properties";
          op.props = random_props(w, rng, rng.chance(0.8) ? 4 : 8, allow_invalid, allow_grains);
        }
      else if (v < 0.85)
        {
          op.via = rng.chance(0.3) ? "temperature_g" : "temperature";
          op.props = {Prop{{1, 0, 0}}};
        }
      else if (v < 0.95 || !allow_grains)
        {
          op.via = "composition";
          op.props = {Prop{{2, static_cast<unsigned>(rng.below(static_cast<uint64_t>(w.max_comp + 3))), 0}}};
        }
      else
        {
          op.via = "grains";
          op.props = {Prop{{3, static_cast<unsigned>(rng.below(static_cast<uint64_t>(w.max_comp + 2))), static_cast<unsigned>(rng.below(4))}}};
        }
    }

  namespace
  {
    // the same document with one number changed: a world that differs from its sibling in one parameter
    std::string perturb_one_number(const std::string &json, Rng &rng)
    {
      std::vector<std::pair<size_t, size_t>> tokens;
      bool in_string = false;
      for (size_t i = 0; i < json.size(); ++i)
        {
          const char c = json[i];
          if (c == '"' && (i == 0 || json[i - 1] != '\\'))
            in_string = !in_string;
          if (in_string)
            continue;
          if ((std::isdigit(static_cast<unsigned char>(c)) || c == '-') && i > 0 && (json[i - 1] == ':' || json[i - 1] == '[' || json[i - 1] == ',' || json[i - 1] == ' '))
            {
              size_t j = i + 1;
              while (j < json.size() && (std::isdigit(static_cast<unsigned char>(json[j])) || json[j] == '.' || json[j] == 'e' || json[j] == 'E' || json[j] == '+' || json[j] == '-'))
                ++j;
              tokens.emplace_back(i, j - i);
              i = j - 1;
            }
        }
      if (tokens.empty())
        return json;
      const auto t = tokens[rng.below(tokens.size())];
      const double v = std::strtod(json.substr(t.first, t.second).c_str(), nullptr);
      static const double f[] = {0.5, 0.75, 1.25, 1.5, 2.0};
      char buf[48];
      std::snprintf(buf, sizeof(buf), "%.17g", v == 0 ? 1.0 : v * f[rng.below(5)]);
      return json.substr(0, t.first) + buf + json.substr(t.first + t.second);
    }
  }

  namespace
  {
    // the same world with every min/max depth (plain numbers and the values of depth surfaces) scaled: a sibling
    // with the same features, the same coordinates and the same surface points, but other depths everywhere
    void scale_depth_values(rapidjson::Value &v, double factor, int depth)
    {
      if (depth > 40)
        return;
      if (v.IsObject())
        for (auto &m : v.GetObject())
          {
            const std::string k = m.name.GetString();
            if (k == "min depth" || k == "max depth")
              {
                if (m.value.IsNumber())
                  m.value.SetDouble(m.value.GetDouble() * factor);
                else if (m.value.IsArray())
                  for (auto &e : m.value.GetArray())
                    if (e.IsArray() && e.Size() >= 1 && e[0].IsNumber())
                      e[0].SetDouble(e[0].GetDouble() * factor);
              }
            else
              scale_depth_values(m.value, factor, depth + 1);
          }
      else if (v.IsArray())
        for (auto &e : v.GetArray())
          scale_depth_values(e, factor, depth + 1);
    }

    void collect_sizes(rapidjson::Value &v, std::vector<rapidjson::Value *> &out, int depth)
    {
      if (depth > 40)
        return;
      if (v.IsObject())
        for (auto &m : v.GetObject())
          {
            const std::string k = m.name.GetString();
            if (k == "length" || k == "thickness" || k == "min depth" || k == "max depth")
              {
                if (m.value.IsNumber())
                  out.push_back(&m.value);
                else if (m.value.IsArray())
                  for (auto &e : m.value.GetArray())
                    if (e.IsNumber())
                      out.push_back(&e);
              }
            else
              collect_sizes(m.value, out, depth + 1);
          }
      else if (v.IsArray())
        for (auto &e : v.GetArray())
          collect_sizes(e, out, depth + 1);
    }

    // the same slab/fault world with one or two lengths, thicknesses or depth limits changed (coordinates and
    // angles stay as they are, so the sibling is as valid as the original)
    std::string perturb_sizes(const std::string &json, Rng &rng)
    {
      rapidjson::Document d;
      d.Parse<rapidjson::kParseCommentsFlag | rapidjson::kParseNanAndInfFlag | rapidjson::kParseIterativeFlag>(json.c_str(), json.size());
      if (d.HasParseError() || !d.IsObject())
        return json;
      std::vector<rapidjson::Value *> nums;
      collect_sizes(d, nums, 0);
      if (nums.empty())
        return json;
      static const double f[] = {0.5, 0.75, 1.25, 1.5, 2.0};
      const int n = static_cast<int>(rng.range(1, 2));
      for (int i = 0; i < n; ++i)
        {
          rapidjson::Value *v = nums[rng.below(nums.size())];
          v->SetDouble(v->GetDouble() * f[rng.below(5)]);
        }
      rapidjson::StringBuffer sb;
      rapidjson::Writer<rapidjson::StringBuffer, rapidjson::UTF8<>, rapidjson::UTF8<>, rapidjson::CrtAllocator, rapidjson::kWriteNanAndInfFlag> wr(sb);
      d.Accept(wr);
      return sb.GetString();
    }

    // the same features in a world whose global constants differ (whatever a model takes from its world has to
    // be taken from its own world, every time)
    std::string perturb_world_constants(const std::string &json, Rng &rng)
    {
      rapidjson::Document d;
      d.Parse<rapidjson::kParseCommentsFlag | rapidjson::kParseNanAndInfFlag | rapidjson::kParseIterativeFlag>(json.c_str(), json.size());
      if (d.HasParseError() || !d.IsObject())
        return json;
      auto &al = d.GetAllocator();
      struct C
      {
        const char *key;
        double lo, hi;
      };
      static const C consts[] = {{"thermal diffusivity", 0.4e-6, 3e-6}, {"potential mantle temperature", 1400, 1800}, {"thermal expansion coefficient", 2e-5, 4e-5},
        {"specific heat", 900, 1500}, {"surface temperature", 250, 320}
      };
      bool any = false;
      for (int tries = 0; tries < 3 && !any; ++tries)
        for (const C &c : consts)
          if (rng.chance(0.5))
            {
              const double v = rng.real(c.lo, c.hi);
              if (d.HasMember(c.key))
                d[c.key].SetDouble(v);
              else
                d.AddMember(rapidjson::Value(c.key, al), rapidjson::Value(v), al);
              any = true;
            }
      rapidjson::StringBuffer sb;
      rapidjson::Writer<rapidjson::StringBuffer, rapidjson::UTF8<>, rapidjson::UTF8<>, rapidjson::CrtAllocator, rapidjson::kWriteNanAndInfFlag> wr(sb);
      d.Accept(wr);
      return sb.GetString();
    }

    std::string scale_depths(const std::string &json, double factor)
    {
      rapidjson::Document d;
      d.Parse<rapidjson::kParseCommentsFlag | rapidjson::kParseNanAndInfFlag | rapidjson::kParseIterativeFlag>(json.c_str(), json.size());
      if (d.HasParseError() || !d.IsObject())
        return json;
      scale_depth_values(d, factor, 0);
      rapidjson::StringBuffer sb;
      rapidjson::Writer<rapidjson::StringBuffer, rapidjson::UTF8<>, rapidjson::UTF8<>, rapidjson::CrtAllocator, rapidjson::kWriteNanAndInfFlag> wr(sb);
      d.Accept(wr);
      return sb.GetString();
    }
  }

  namespace
  {
    // the same world with one more feature painted last: a layer over everything that adds to the temperature.
    // Whatever an earlier feature remembers about "the temperature here" is then no longer the world's answer.
    std::string append_warm_layer(const WorldInfo &w, Rng &rng)
    {
      rapidjson::Document d;
      d.Parse<rapidjson::kParseCommentsFlag | rapidjson::kParseNanAndInfFlag | rapidjson::kParseIterativeFlag>(w.content.c_str(), w.content.size());
      if (d.HasParseError() || !d.IsObject() || !d.HasMember("features") || !d["features"].IsArray())
        return w.content;
      auto &al = d.GetAllocator();
      const double ex = w.xmax - w.xmin, ey = w.ymax - w.ymin;
      double x0 = w.xmin - 0.5 * ex, x1 = w.xmax + 0.5 * ex, y0 = w.ymin - 0.5 * ey, y1 = w.ymax + 0.5 * ey;
      if (w.spherical)
        {
          x0 = std::max(-359.0, x0);
          x1 = std::min(359.0, x1);
          y0 = std::max(-89.0, y0);
          y1 = std::min(89.0, y1);
        }
      rapidjson::Value f(rapidjson::kObjectType);
      f.AddMember("model", "mantle layer", al);
      f.AddMember("name", "warm layer painted last", al);
      rapidjson::Value coords(rapidjson::kArrayType);
      const double cs[4][2] = {{x0, y0}, {x1, y0}, {x1, y1}, {x0, y1}};
      for (const auto &c : cs)
        {
          rapidjson::Value p(rapidjson::kArrayType);
          p.PushBack(c[0], al).PushBack(c[1], al);
          coords.PushBack(p, al);
        }
      f.AddMember("coordinates", coords, al);
      f.AddMember("min depth", 0.0, al);
      f.AddMember("max depth", std::floor(rng.real(100e3, 1.2 * w.max_depth + 100e3)), al);
      rapidjson::Value tm(rapidjson::kObjectType);
      tm.AddMember("model", "uniform", al);
      tm.AddMember("temperature", std::floor(rng.real(50, 400)), al);
      tm.AddMember("operation", rapidjson::Value(rng.chance(0.75) ? "add" : "subtract", al), al);
      rapidjson::Value tms(rapidjson::kArrayType);
      tms.PushBack(tm, al);
      f.AddMember("temperature models", tms, al);
      d["features"].PushBack(f, al);
      rapidjson::StringBuffer sb;
      rapidjson::Writer<rapidjson::StringBuffer, rapidjson::UTF8<>, rapidjson::UTF8<>, rapidjson::CrtAllocator, rapidjson::kWriteNanAndInfFlag> wr(sb);
      d.Accept(wr);
      return std::string(sb.GetString(), sb.GetSize());
    }
  }

  bool gen_c01(uint64_t seed, uint64_t run, const std::string &tier, Scenario &s)
  {
    const uint64_t rs = hash_mix(seed, run);
    Rng rng = stream(rs, "workload");
    Rng frng = stream(rs, "faults");
    s.property = "C01";
    s.seed = seed;
    s.run = run;
    s.oracle = "stateless";
    s.generator = "c01";
    const auto &cat = corpus();
    const auto &ok = corpus_buildable(false, false);
    // the files of this run: corpus worlds and generated ones
    const int nfiles = static_cast<int>(rng.range(1, 3));
    std::vector<WorldInfo> infos;
    std::vector<GenWorld> gens;
    for (int i = 0; i < nfiles; ++i)
      {
        WorldInfo w;
        GenWorld gw;
        if (rng.chance(0.1))
          {
            gen_edge_world(rng, w);
            s.generator = "c01+edge";
          }
        else if (rng.chance(0.45) || ok.empty())
          {
            GenWorld g = gen_rich_world(rng, false);
            w = analyse_world("gen" + std::to_string(i) + ".wb", g.json);
            gw = g;
            s.generator = "c01+rich";
          }
        else
          w = cat[ok[rng.below(ok.size())]];
        if (rng.chance(0.12))
          {
            const std::string keep = w.name;
            const bool edge = w.edge_world;
            WorldInfo w2 = analyse_world(keep, append_warm_layer(w, rng));
            if (w2.parse_ok && !edge)
              {
                w = w2;
                s.generator += "+layer";
              }
          }
        if (i > 0 && rng.chance(0.3))
          {
            // a sibling of the first file that differs in one number (stale state keyed by anything but the
            // world itself would carry answers from one to the other)
            w = analyse_world(infos[0].name.substr(infos[0].name.find_last_of('/') + 1),
                              rng.chance(0.4) ? perturb_world_constants(infos[0].content, rng) : perturb_one_number(infos[0].content, rng));
            if (!w.parse_ok)
              w = infos[0];
            w.edge_world = false;
            s.generator += "+sibling";
          }
        w.name = "/simfs/w" + std::to_string(i) + "_" + w.name.substr(w.name.find_last_of('_') == std::string::npos ? 0 : 0);
        infos.push_back(w);
        gens.push_back(gw);
        s.files[w.name] = w.content;
      }
    ProbePoint last_point;
    bool have_last_point = false;
    if (rng.chance(0.1))
      {
        // "reincarnation": a world is asked a last question and destroyed, a sibling that differs in one number is
        // built in its place (very likely at the same addresses) and is asked the very same question first. State
        // that outlives a world - a memo keyed by object address, a static cache - answers for the dead world.
        s.generator += "+reincarnation";
        s.alloc_recycle = rng.chance(0.6) ? 1 : 0; // freed blocks go straight to the next request of their size
        WorldInfo a = infos[0], b = infos[0];
        for (int tries = 0; tries < 6; ++tries)
          {
            // a world with slabs or faults mostly gets a sibling whose slabs have other lengths, thicknesses or
            // depth limits (what is remembered about a dead slab is then wrong for its successor); a world with
            // depth surfaces one whose surfaces lie elsewhere; otherwise any one number changes
            const double kind = rng.real();
            const std::string sib = (!gens[0].slabs.empty() && kind < 0.6) ? perturb_sizes(infos[0].content, rng)
                                    : (!infos[0].surface_points.empty() && kind < 0.5) ? scale_depths(infos[0].content, rng.real(0.4, 0.9))
                                    : perturb_one_number(infos[0].content, rng);
            WorldInfo c = analyse_world("sib.wb", sib);
            if (c.parse_ok)
              {
                b = c;
                break;
              }
          }
        b.name = "/simfs/w9_sibling.wb";
        b.edge_world = false;
        s.files[b.name] = b.content;
        s.ops.clear();
        Slot slot;
        const int rounds = static_cast<int>(rng.range(3, 7));
        Op last;
        bool have_last = false;
        for (int k = 0; k < rounds; ++k)
          {
            const WorldInfo &w = (k % 2 == 0) ? a : b;
            Op c;
            c.op = "create";
            c.h = 0;
            c.file = w.name;
            s.ops.push_back(c);
            if (have_last)
              s.ops.push_back(last); // the dead world's last question, first thing
            const int nq = static_cast<int>(rng.range(1, 6));
            for (int i = 0; i < nq; ++i)
              {
                Op q;
                fill_query(q, w, slot, rng, false, true);
                if (!gens[0].slabs.empty() && q.op == "q3" && rng.chance(0.6))
                  {
                    double x, y, depth;
                    std::string note;
                    place_near_slab(gens[0], gens[0].slabs[rng.below(gens[0].slabs.size())], rng, x, y, depth, note);
                    natural_to_query(w, x, y, std::max(0.0, depth), q.p);
                    q.d = std::max(0.0, depth);
                  }
                q.h = 0;
                s.ops.push_back(q);
                last = q;
                have_last = true;
              }
            Op d;
            d.op = "destroy";
            d.h = 0;
            s.ops.push_back(d);
          }
        return true;
      }
    const bool alloc_faults = frng.chance(0.2);
    const int nslots = static_cast<int>(rng.range(1, 4));
    std::vector<Slot> slots(static_cast<size_t>(nslots));
    const int nops = static_cast<int>(tier == "thorough" ? rng.range(20, 200) : rng.range(15, 70));
    auto create = [&](int h)
    {
      Op op;
      op.op = "create";
      op.h = h;
      const WorldInfo &w = infos[rng.below(infos.size())];
      op.file = w.name;
      op.seed = static_cast<unsigned long>(rng.range(0, 5));
      slots[static_cast<size_t>(h)].alive = true;
      slots[static_cast<size_t>(h)].w = &w;
      slots[static_cast<size_t>(h)].used.clear();
      s.ops.push_back(op);
    };
    create(0);
    for (int i = 0; i < nops; ++i)
      {
        const int h = static_cast<int>(rng.below(static_cast<uint64_t>(nslots)));
        Slot &slot = slots[static_cast<size_t>(h)];
        const double sel = rng.real();
        if (!slot.alive)
          {
            if (sel < 0.5)
              create(h);
            continue;
          }
        if (sel < 0.03)
          {
            Op op;
            op.op = "destroy";
            op.h = h;
            slot.alive = false;
            s.ops.push_back(op);
          }
        else if (sel < 0.08)
          {
            Op op;
            op.op = "size";
            op.h = h;
            op.props = random_props(*slot.w, rng, 8, true);
            s.ops.push_back(op);
          }
        else if (sel < 0.11 && !slot.w->feature_names.empty())
          {
            Op op;
            op.op = "dist";
            op.h = h;
            const ProbePoint pp = probe_point(*slot.w, rng);
            for (int k = 0; k < 3; ++k)
              op.p[k] = pp.p3[k];
            op.d = pp.depth;
            op.name = slot.w->feature_names[rng.below(slot.w->feature_names.size())];
            // the same question twice, with other ops in between, must give the same answer
            op.eq = "dist" + std::to_string(s.ops.size());
            s.ops.push_back(op);
            Op q;
            fill_query(q, *slot.w, slot, rng, true, true);
            q.h = h;
            s.ops.push_back(q);
            s.ops.push_back(op);
          }
        else
          {
            Op op;
            if (have_last_point && slot.used.empty() && rng.chance(0.6))
              slot.used.push_back(last_point); // the first question to a new world: the last point asked of any world
            fill_query(op, *slot.w, slot, rng, true, true);
            if (!slot.used.empty())
              {
                last_point = slot.used.back();
                have_last_point = true;
              }
            // in generated worlds with slabs or faults a third of the 3D points is placed inside / next to them
            {
              const size_t wi = static_cast<size_t>(slot.w - &infos[0]);
              if (op.op == "q3" && wi < gens.size() && !gens[wi].slabs.empty() && rng.chance(0.35))
                {
                  double x, y, depth;
                  std::string note;
                  place_near_slab(gens[wi], gens[wi].slabs[rng.below(gens[wi].slabs.size())], rng, x, y, depth, note);
                  if (depth < 0)
                    depth = 0;
                  natural_to_query(*slot.w, x, y, depth, op.p);
                  op.d = depth;
                }
            }
            op.h = h;
            if (alloc_faults && frng.chance(0.08))
              op.alloc_fail = frng.range(1, 30);
            // "this rare condition was reached" probes (counted in evidence)
            bool grains_then_velocity = false, seen_grains = false;
            for (const auto &p : op.props)
              {
                if (p[0] == 3 && p[2] != 1)
                  seen_grains = true;
                if (p[0] == 5 && seen_grains)
                  grains_then_velocity = true;
              }
            if (op.op == "q2" && grains_then_velocity)
              op.note = "2d_grains_kne1_then_velocity";
            else if (op.d == 0.0 && slot.w->force_surface_t && op.props.size() > 1)
              op.note = "forced_surface_temperature_batched";
            else if (op.alloc_fail)
              op.note = "alloc_fault_in_query";
            s.ops.push_back(op);
          }
      }
    return true;
  }

  // ------------------------------------------------------------------ C07
  namespace
  {
    // planar construction: horizontal offset and depth below the feature's min depth at
    // along-surface distance s, plus the local dip (radians)
    void slab_profile(const SlabMeta &m, double s, double &h, double &z, double &dip)
    {
      h = 0;
      z = 0;
      dip = m.seg_angles.empty() ? 0.5 : m.seg_angles[0][0] * M_PI / 180.0;
      double left = s;
      for (size_t i = 0; i < m.seg_lengths.size(); ++i)
        {
          const double L = m.seg_lengths[i];
          const double a1 = m.seg_angles[i][0] * M_PI / 180.0, a2 = m.seg_angles[i][1] * M_PI / 180.0;
          const double part = (i + 1 == m.seg_lengths.size()) ? left : std::min(left, L);
          const int steps = 40;
          for (int k = 0; k < steps; ++k)
            {
              const double sm = (k + 0.5) / steps * part;
              const double a = a1 + (a2 - a1) * (L > 0 ? sm / L : 0);
              h += std::cos(a) * part / steps;
              z += std::sin(a) * part / steps;
              dip = a;
            }
          left -= part;
          if (left <= 0)
            break;
        }
    }

    void place_near_slab(const GenWorld &g, const SlabMeta &m, Rng &rng, double &x, double &y, double &depth, std::string &note)
    {
      // a point on the trench
      const size_t nseg = m.trench.size() - 1;
      const size_t si = rng.below(nseg);
      const double t = rng.real(-0.05, 1.05);
      const auto &a = m.trench[si], &b = m.trench[si + 1];
      double bx = a[0] + t * (b[0] - a[0]), by = a[1] + t * (b[1] - a[1]);
      // metres per natural unit at the base point
      double ux = 1, uy = 1;
      if (m.spherical)
        {
          uy = m.radius * M_PI / 180.0;
          ux = uy * std::max(0.05, std::cos(by * M_PI / 180.0));
        }
      // horizontal unit normal of the trench, pointing to the dip-point side (in metres)
      double tx = (b[0] - a[0]) * ux, ty = (b[1] - a[1]) * uy;
      const double tl = std::sqrt(tx * tx + ty * ty);
      tx /= (tl > 0 ? tl : 1);
      ty /= (tl > 0 ? tl : 1);
      double nx = -ty, ny = tx;
      const double dx = (m.dip_point[0] - bx) * ux, dy = (m.dip_point[1] - by) * uy;
      if (nx * dx + ny * dy < 0)
        {
          nx = -nx;
          ny = -ny;
        }
      const double sel = rng.real();
      double s;
      if (sel < 0.25)
        {
          s = m.total_length * rng.real(0.85, 1.1); // the deep end, where the depth cut-off acts
          note = "deep_end";
        }
      else if (sel < 0.35)
        {
          s = m.total_length * rng.real(-0.02, 0.1);
          note = "top_end";
        }
      else
        {
          s = m.total_length * rng.real(0, 1);
          note = "placed";
        }
      double h, z, dip;
      slab_profile(m, std::max(0.0, s), h, z, dip);
      const double q = m.fault ? m.max_thickness * rng.real(-0.7, 0.7) : m.max_thickness * rng.real(-0.2, 1.2);
      h += q * (-std::sin(dip));
      z += q * std::cos(dip);
      x = bx + h * nx / ux;
      y = by + h * ny / uy;
      depth = m.min_depth + z;
      if (m.spherical)
        {
          y = std::max(-89.9, std::min(89.9, y));
        }
      (void) g;
    }
  }

  bool gen_c07(uint64_t seed, uint64_t run, const std::string &tier, Scenario &s)
  {
    const uint64_t rs = hash_mix(seed, run);
    Rng rng = stream(rs, "workload");
    Rng brng = stream(rs, "buggify");
    s.property = "C07";
    s.seed = seed;
    s.run = run;
    const bool slabs = rng.chance(0.65);
    GenWorld g = slabs ? gen_slab_world(rng) : gen_surface_world(rng);
    s.generator = slabs ? "c07/slab" : "c07/surface";
    const std::string path = "/simfs/c07.wb";
    s.files[path] = g.json;
    const WorldInfo w = analyse_world(path, g.json);
    // buggify: a seeded non-empty subset of the sites that matter for this file
    unsigned mask = 0;
    const unsigned candidates = slabs ? ((1u << 1) | (1u << 2) | (1u << 3) | (1u << 4)) : ((1u << 5) | (1u << 6) | (1u << 7) | (1u << 8) | (1u << 9));
    while (mask == 0)
      for (int b = 1; b <= 9; ++b)
        if (((candidates >> b) & 1u) && brng.chance(0.6))
          mask |= (1u << b);
    Op ca;
    ca.op = "create";
    ca.h = 0;
    ca.file = path;
    Op cb = ca;
    cb.h = 1;
    cb.mask = mask;
    s.ops.push_back(ca);
    s.ops.push_back(cb);
    const int npoints = tier == "thorough" ? 500 : 300;
    const std::vector<Prop> base_props = {Prop{{1, 0, 0}}, Prop{{2, 0, 0}}, Prop{{2, 1, 0}}, Prop{{2, 2, 0}}, Prop{{4, 0, 0}}};
    for (int i = 0; i < npoints; ++i)
      {
        double x, y, depth;
        std::string note = "uniform";
        const double sel = rng.real();
        if (slabs && sel < 0.7)
          place_near_slab(g, g.slabs[rng.below(g.slabs.size())], rng, x, y, depth, note);
        else if (!slabs && sel < 0.7)
          {
            // inside/near the polygons, depth across the whole range of the surfaces
            ProbePoint pp = probe_point(w, rng);
            (void) pp;
            const auto &c1 = w.coords[rng.below(w.coords.size())];
            const auto &c2 = w.coords[rng.below(w.coords.size())];
            const auto &c3 = w.coords[rng.below(w.coords.size())];
            double u = rng.real(), v = rng.real();
            if (u + v > 1)
              {
                u = 1 - u;
                v = 1 - v;
              }
            x = c1[0] + u * (c2[0] - c1[0]) + v * (c3[0] - c1[0]);
            y = c1[1] + u * (c2[1] - c1[1]) + v * (c3[1] - c1[1]);
            depth = rng.real(0, 550e3);
            note = "placed";
          }
        else
          {
            x = w.xmin + (w.xmax - w.xmin) * rng.real(-0.5, 1.5);
            y = w.ymin + (w.ymax - w.ymin) * rng.real(-0.5, 1.5);
            depth = rng.real(0, slabs ? 1200e3 : 600e3);
            if (w.spherical)
              y = std::max(-89.9, std::min(89.9, y));
          }
        if (w.spherical)
          depth = std::min(depth, 0.9 * w.radius);
        if (depth < 0)
          depth = 0;
        Op a;
        a.op = "q3";
        a.h = 0;
        natural_to_query(w, x, y, depth, a.p);
        a.d = depth;
        a.props = base_props;
        if (rng.chance(slabs ? 0.1 : 0.4))
          a.props.push_back(Prop{{5, 0, 0}});
        a.eq = "p" + std::to_string(i);
        a.note = note;
        Op b = a;
        b.h = 1;
        b.mask = mask;
        if (mask & (1u << 8))
          {
            a.tol = 1e-9;
            b.tol = 1e-9;
          }
        s.ops.push_back(a);
        s.ops.push_back(b);
      }
    if (rng.chance(0.35))
      {
        // further lives: both worlds are destroyed and built again into the same two slots, alternately from a
        // sibling file (same features, coordinates and surface points, other depths / sizes) and from the
        // original, and each new pair is first asked the point its predecessors were asked last. What a shortcut
        // remembers must die with its world, wherever the allocator puts the next one.
        s.generator += "+rebuilt";
        s.alloc_recycle = rng.chance(0.7) ? 1 : 0; // the simulated allocator hands freed blocks straight back
        const std::string path2 = "/simfs/c07b.wb";
        s.files[path2] = slabs ? perturb_sizes(g.json, rng) : scale_depths(g.json, rng.real(0.4, 0.9));
        // the points asked in every further life: the most recent ones of the first life, most recent first
        std::vector<std::pair<Op, Op>> again;
        const int n_again = static_cast<int>(rng.range(2, 12));
        for (int k = 0; k < n_again && 2 * (k + 1) + 2 <= static_cast<int>(s.ops.size()); ++k)
          {
            const Op &a = s.ops[s.ops.size() - 2 * (k + 1)], &b = s.ops[s.ops.size() - 2 * (k + 1) + 1];
            if (a.op != "q3" || b.op != "q3")
              break;
            again.emplace_back(a, b);
          }
        const int lives = static_cast<int>(rng.range(1, 8));
        for (int life = 1; life <= lives; ++life)
          {
            // which of the old worlds' memory a new world is built into depends on the order of these four operations
            Op d;
            d.op = "destroy";
            const int first_gone = static_cast<int>(rng.below(2));
            d.h = first_gone;
            s.ops.push_back(d);
            d.h = 1 - first_gone;
            s.ops.push_back(d);
            ca.file = cb.file = (life % 2 == 1) ? path2 : path;
            if (rng.chance(0.5))
              {
                s.ops.push_back(ca);
                s.ops.push_back(cb);
              }
            else
              {
                s.ops.push_back(cb);
                s.ops.push_back(ca);
              }
            for (size_t k = 0; k < again.size(); ++k)
              {
                Op a = again[k].first, b = again[k].second;
                a.eq = b.eq = "r" + std::to_string(life) + "_" + std::to_string(k);
                s.ops.push_back(a);
                s.ops.push_back(b);
              }
            // the next life starts with the point this one was asked last
            std::reverse(again.begin(), again.end());
          }
      }
    return true;
  }

  // ------------------------------------------------------------------ C15
  bool gen_c15(uint64_t seed, uint64_t run, const std::string &tier, Scenario &s)
  {
    const uint64_t rs = hash_mix(seed, run);
    Rng rng = stream(rs, "workload");
    s.property = "C15";
    s.seed = seed;
    s.run = run;
    s.engine_model = true;
    const auto &cat = corpus();
    const auto &rnd_corpus = corpus_buildable(true, true);
    const auto &plain_corpus = corpus_buildable(false, false);
    GenWorld g;
    WorldInfo w;
    bool predicted = false;
    if (rng.chance(0.8) || rnd_corpus.empty())
      {
        g = gen_random_world(rng);
        w = analyse_world("/simfs/random.wb", g.json);
        predicted = g.rnd.present;
        s.generator = predicted ? "c15/box" : "c15/line";
      }
    else
      {
        w = cat[rnd_corpus[rng.below(rnd_corpus.size())]];
        w.name = "/simfs/" + w.name;
        s.generator = "c15/corpus";
      }
    s.files[w.name] = w.content;
    // an unrelated world
    WorldInfo u = plain_corpus.empty() ? w : cat[plain_corpus[rng.below(plain_corpus.size())]];
    u.name = "/simfs/other_" + u.name.substr(u.name.find_last_of('/') + 1);
    s.files[u.name] = u.content;

    static const unsigned long seeds[] = {0ul, 1ul, 2ul, 1000ul, 2147483648ul, 4294967295ul, 4294967296ul, 4294967301ul};
    const unsigned long sa = rng.chance(0.7) ? seeds[rng.below(8)] : static_cast<unsigned long>(rng.next() >> rng.below(40));
    unsigned long sc = rng.chance(0.7) ? seeds[rng.below(8)] : static_cast<unsigned long>(rng.next() >> rng.below(40));
    if (rng.chance(0.15))
      sc = sa + 4294967296ul; // same seed modulo 2^32: mt19937 seeding makes these worlds identical
    if (sc == sa)
      sc = sa + 1;
    const long fseed = s.generator == "c15/corpus" ? -2 : g.file_seed;
    // effective seeds equal? (file seed >= 0 overrides the constructor argument)
    const bool c_same = fseed >= 0 || (fseed == -1 && (sa & 0xfffffffful) == (sc & 0xfffffffful));
    const bool c_known = fseed != -2;

    auto create = [&](int h, const std::string &file, unsigned long sd)
    {
      Op op;
      op.op = "create";
      op.h = h;
      op.file = file;
      op.seed = sd;
      return op;
    };
    // the query sequence
    const int n = static_cast<int>(tier == "thorough" ? rng.range(20, 150) : rng.range(10, 60));
    std::vector<Op> Q;
    const RandomMeta &m = g.rnd;
    for (int i = 0; i < n; ++i)
      {
        Op q;
        q.op = "q3";
        double x, y, depth;
        bool inside = false;
        if (predicted)
          {
            inside = rng.chance(0.7);
            const double ex = m.x1 - m.x0, ey = m.y1 - m.y0, ed = m.max_depth - m.min_depth;
            if (inside)
              {
                x = m.x0 + ex * rng.real(0.02, 0.98);
                y = m.y0 + ey * rng.real(0.02, 0.98);
                depth = m.min_depth + ed * rng.real(0.02, 0.98);
              }
            else
              {
                // clearly outside: beyond the box or below it
                x = m.x0 + ex * rng.real(0.02, 0.98);
                y = m.y0 + ey * rng.real(0.02, 0.98);
                depth = m.min_depth + ed * rng.real(0.02, 0.98);
                const int how = static_cast<int>(rng.below(3));
                if (how == 0)
                  x = rng.chance(0.5) ? m.x0 - ex * rng.real(0.05, 0.5) : m.x1 + ex * rng.real(0.05, 0.5);
                else if (how == 1)
                  y = rng.chance(0.5) ? m.y0 - ey * rng.real(0.05, 0.5) : m.y1 + ey * rng.real(0.05, 0.5);
                else
                  depth = m.max_depth + ed * rng.real(0.05, 1.0);
              }
            natural_to_query(w, x, y, depth, q.p);
            q.d = depth;
            if (!w.spherical && w.has_cs && rng.chance(0.25))
              {
                // the same kind of question through the 2d interface: the point of the cross section nearest to (x,y),
                // kept only when that point is clearly inside or clearly outside the box
                const double ax = w.cs[0][0], ay = w.cs[0][1];
                double dx = w.cs[1][0] - ax, dy = w.cs[1][1] - ay;
                const double len = std::sqrt(dx * dx + dy * dy);
                if (len > 0)
                  {
                    dx /= len;
                    dy /= len;
                    const double sx = (x - ax) * dx + (y - ay) * dy;
                    const double lx = ax + sx * dx, ly = ay + sx * dy;
                    const bool depth_in = depth > m.min_depth && depth < m.max_depth;
                    const bool xy_in = lx > m.x0 + 0.02 * ex && lx < m.x1 - 0.02 * ex && ly > m.y0 + 0.02 * ey && ly < m.y1 - 0.02 * ey;
                    const bool xy_out = lx < m.x0 - 0.02 * ex || lx > m.x1 + 0.02 * ex || ly < m.y0 - 0.02 * ey || ly > m.y1 + 0.02 * ey;
                    if (xy_in || xy_out)
                      {
                        q.op = "q2";
                        q.p[0] = sx;
                        q.p[1] = -depth;
                        q.p[2] = 0;
                        inside = xy_in && depth_in;
                      }
                  }
              }
          }
        else
          {
            const ProbePoint pp = probe_point(w, rng);
            for (int k = 0; k < 3; ++k)
              q.p[k] = pp.p3[k];
            q.d = pp.depth;
            if (w.has_cs && rng.chance(0.3))
              {
                q.op = "q2";
                q.p[0] = pp.p2[0];
                q.p[1] = pp.p2[1];
                q.p[2] = 0;
              }
          }
        // the request: at most one grains block, a few other properties
        long draws = 0;
        const int np = static_cast<int>(rng.range(1, 4));
        bool have_grains = false;
        for (int k = 0; k < np; ++k)
          {
            const double sel = rng.real();
            if (sel < 0.45 && !have_grains)
              {
                have_grains = true;
                static const unsigned ks[] = {0, 1, 2, 3, 5, 10, 50};
                const unsigned kk = ks[rng.below(rng.chance(0.9) ? 6 : 7)];
                unsigned comp = static_cast<unsigned>(rng.below(3));
                if (m.grains_present && rng.chance(0.8))
                  comp = m.grain_comps[rng.below(m.grain_comps.size())];
                q.props.push_back(Prop{{3, comp, kk}});
                // orientation validity is only demanded where the generator knows that every grains model
                // of the file is a random one with an orthonormal basis (corpus files contain uniform models
                // with user-supplied matrices that are not rotations)
                q.gc.on = (s.generator != "c15/corpus");
                q.gc.rot = true;
                if (!predicted && s.generator == "c15/line" && m.grains_present && m.sole_grains_model)
                  {
                    // a slab or fault with the only grains model of the file: where grains are reported at all
                    // they come from that model, so their sizes follow the settings of the composition asked for
                    for (size_t ci = 0; ci < m.grain_comps.size(); ++ci)
                      if (m.grain_comps[ci] == comp)
                        {
                          q.gc.sum1 = m.normalize[ci] && kk > 0;
                          q.gc.fixed = !m.normalize[ci] && m.grain_sizes[ci] >= 0;
                          q.gc.sizes = {m.grain_sizes[ci]};
                        }
                  }
                if (predicted && m.grains_present)
                  {
                    for (size_t ci = 0; ci < m.grain_comps.size(); ++ci)
                      if (m.grain_comps[ci] == comp)
                        {
                          if (inside)
                            {
                              draws += static_cast<long>(kk) * 6 + (m.grain_sizes[ci] < 0 ? static_cast<long>(kk) * 2 : 0);
                              q.gc.inside = kk > 0;
                              q.gc.sum1 = m.normalize[ci] && kk > 0;
                              q.gc.fixed = !m.normalize[ci] && m.grain_sizes[ci] >= 0;
                              q.gc.sizes = {m.grain_sizes[ci]};
                            }
                        }
                  }
              }
            else if (sel < 0.7)
              {
                unsigned comp = static_cast<unsigned>(rng.below(5));
                if (predicted && m.comp_present && rng.chance(0.7))
                  comp = m.comp_comps[rng.below(m.comp_comps.size())];
                q.props.push_back(Prop{{2, comp, 0}});
                if (predicted && m.comp_present)
                  for (size_t ci = 0; ci < m.comp_comps.size(); ++ci)
                    if (m.comp_comps[ci] == comp && inside)
                      draws += 2;
              }
            else if (sel < 0.85)
              q.props.push_back(Prop{{1, 0, 0}});
            else if (sel < 0.95)
              q.props.push_back(Prop{{4, 0, 0}});
            else
              q.props.push_back(Prop{{5, 0, 0}});
          }
        if (predicted && m.comp_present)
          {
            // bounds of the random composition: the file uses min value[0], max value[0] for every listed composition
            bool only_one = true;
            int ncomp = 0;
            for (const auto &p : q.props)
              if (p[0] == 2)
                ++ncomp;
            only_one = ncomp >= 1;
            if (only_one && inside)
              {
                q.comp_check = true;
                q.comp_lo = m.comp_min[0];
                q.comp_hi = m.comp_max[0];
              }
          }
        q.draws = predicted ? draws : -1;
        if (rng.chance(0.03))
          {
            q.props.push_back(Prop{{9, 0, 0}}); // a request that throws
            q.draws = -1;
          }
        Q.push_back(q);
      }
    if (rng.chance(0.15))
      {
        // one client thread per world: twins (and a sibling) queried at the same time. Worlds share nothing
        // by contract, so any report of ThreadSanitizer and any difference between the twins is state that
        // leaks between worlds (a function-local static scratch object, a shared engine)
        s.generator += "+threads";
        s.ops.push_back(create(0, w.name, sa));
        s.ops.push_back(create(1, w.name, sa));
        s.ops.push_back(create(2, w.name, sc));
        std::vector<Op> ta, tb, tc;
        for (int i = 0; i < n; ++i)
          {
            Op a = Q[static_cast<size_t>(i)];
            a.draws = -1;
            a.h = 0;
            a.eq = "t" + std::to_string(i);
            Op b = a;
            b.h = 1;
            Op c = Q[static_cast<size_t>(i)];
            c.draws = -1;
            c.h = 2;
            ta.push_back(a);
            tb.push_back(b);
            tc.push_back(c);
          }
        s.threads.push_back(ta);
        s.threads.push_back(tb);
        s.threads.push_back(tc);
        Rng srng = stream(rs, "schedule");
        s.sched = random_sched(srng, 3);
        return true;
      }
    // lay the history out: A contiguous or interleaved, B interleaved with C and the unrelated world
    s.ops.push_back(create(0, w.name, sa));
    if (rng.chance(0.5))
      s.ops.push_back(create(3, u.name, 1));
    const bool a_first = rng.chance(0.5);
    std::vector<Op> seqA, seqB, seqC;
    bool neq_done = false;
    for (int i = 0; i < n; ++i)
      {
        Op a = Q[static_cast<size_t>(i)];
        a.h = 0;
        a.eq = "q" + std::to_string(i);
        Op b = a;
        b.h = 1;
        Op c = Q[static_cast<size_t>(i)];
        c.h = 2;
        c.eq.clear();
        if (c_known && c_same)
          c.eq = a.eq; // same effective seed: the sibling is a third twin
        else if (c_known && !neq_done && Q[static_cast<size_t>(i)].draws > 0 && (!m.grains_present || !m.deflected || m.min_deflection > 0.01))
          {
            // different seeds give different draws (first random request of the history)
            a.neq = "first_random";
            c.neq = "first_random";
            neq_done = true;
          }
        if (!(c_known && c_same) && neq_done && c.neq.empty())
          c.draws = Q[static_cast<size_t>(i)].draws; // engine model still applies to the sibling
        seqA.push_back(a);
        seqB.push_back(b);
        seqC.push_back(c);
      }
    auto unrelated = [&]()
    {
      Op o;
      const double sel = rng.real();
      if (sel < 0.5)
        {
          o.op = "q3";
          o.h = 3;
          const ProbePoint pp = probe_point(u, rng);
          for (int k = 0; k < 3; ++k)
            o.p[k] = pp.p3[k];
          o.d = pp.depth;
          o.props = random_props(u, rng, 4, true);
        }
      else if (sel < 0.75)
        o = create(3, u.name, static_cast<unsigned long>(rng.below(10)));
      else
        {
          o.op = "destroy";
          o.h = 3;
        }
      return o;
    };
    if (a_first)
      {
        for (auto &a : seqA)
          s.ops.push_back(a);
        s.ops.push_back(create(1, w.name, sa));
        s.ops.push_back(create(2, w.name, sc));
        size_t ib = 0, ic = 0;
        while (ib < seqB.size() || ic < seqC.size())
          {
            const double sel = rng.real();
            if (sel < 0.5 && ib < seqB.size())
              s.ops.push_back(seqB[ib++]);
            else if (sel < 0.8 && ic < seqC.size())
              s.ops.push_back(seqC[ic++]);
            else if (sel < 0.9)
              s.ops.push_back(unrelated());
            else if (ib >= seqB.size() && ic < seqC.size())
              s.ops.push_back(seqC[ic++]);
            else if (ib < seqB.size())
              s.ops.push_back(seqB[ib++]);
          }
      }
    else
      {
        s.ops.push_back(create(1, w.name, sa));
        s.ops.push_back(create(2, w.name, sc));
        size_t ia = 0, ib = 0, ic = 0;
        while (ia < seqA.size() || ib < seqB.size() || ic < seqC.size())
          {
            const double sel = rng.real();
            if (sel < 0.35 && ia < seqA.size())
              s.ops.push_back(seqA[ia++]);
            else if (sel < 0.7 && ib < seqB.size())
              s.ops.push_back(seqB[ib++]);
            else if (sel < 0.85 && ic < seqC.size())
              s.ops.push_back(seqC[ic++]);
            else if (sel < 0.92)
              s.ops.push_back(unrelated());
            else if (ia < seqA.size())
              s.ops.push_back(seqA[ia++]);
            else if (ib < seqB.size())
              s.ops.push_back(seqB[ib++]);
            else if (ic < seqC.size())
              s.ops.push_back(seqC[ic++]);
          }
      }
    return true;
  }

  // ------------------------------------------------------------------ C16
  bool gen_c16(uint64_t seed, uint64_t run, const std::string &tier, Scenario &s)
  {
    const uint64_t rs = hash_mix(seed, run);
    Rng rng = stream(rs, "workload");
    Rng frng = stream(rs, "faults");
    s.property = "C16";
    s.seed = seed;
    s.run = run;
    s.generator = "c16";
    s.engine_model = true;
    const auto &cat = corpus();
    const auto &all = corpus_buildable(true, false);
    const int npairs = static_cast<int>(rng.range(1, 2));
    int eqn = 0;
    static const unsigned long seeds[] = {0ul, 1ul, 2ul, 1000ul, 2147483648ul, 4294967295ul, 4294967296ul, 4294967301ul,
                                          9223372036854775807ul, 9223372036854775808ul, 9223372036854775813ul, 18446744073709551615ul, 18446744069414584325ul
                                         };
    struct Pair
    {
      WorldInfo w;
      int hn, hw;
      std::string kind;
      bool alive;
      Slot slot;      // points asked before (asked again now and then)
      Op last;        // the previous query of this pair
      bool has_last = false;
    };
    std::vector<Pair> pairs;
    for (int ip = 0; ip < npairs; ++ip)
      {
        Pair p;
        if (rng.chance(0.35) || all.empty())
          {
            GenWorld g = rng.chance(0.5) ? gen_rich_world(rng, false) : gen_random_world(rng);
            p.w = analyse_world("gen.wb", g.json);
          }
        else
          p.w = cat[all[rng.below(all.size())]];
        p.w.name = "/simfs/p" + std::to_string(ip) + "_" + p.w.name;
        s.files[p.w.name] = p.w.content;
        p.hn = 2 * ip;
        p.hw = 2 * ip + 1;
        p.kind = rng.chance(0.6) ? "c" : "cpp";
        p.alive = false;
        pairs.push_back(p);
      }
    auto create_pair = [&](Pair &p)
    {
      Op n;
      n.op = "create";
      n.kind = "native";
      n.h = p.hn;
      n.file = p.w.name;
      n.seed = rng.chance(0.7) ? seeds[rng.below(13)] : static_cast<unsigned long>(rng.next() >> rng.below(40));
      const double sel = rng.real();
      if (sel < 0.45)
        {
          n.has_outdir = (p.kind == "c" && rng.chance(0.5)) ? -1 : 0;
          n.outdir_null = (p.kind == "c" && rng.chance(0.5));
          if (!n.outdir_null)
            n.outdir = rng.chance(0.5) ? "" : "out/";
        }
      else
        {
          n.has_outdir = 1;
          // every character of the argument matters: prefixes without a separator, with blanks at either end
          static const char *dirs[] = {"", "out/", "/simfs/deep/dir/", "o/", "x", "out/ ", "o ", " o/", "out//"};
          const size_t d = rng.below(10);
          n.outdir_null = false;
          n.outdir = d < 9 ? dirs[d] : std::string(300, 'p') + "/";
        }
      if (rng.chance(0.06))
        n.file = "/simfs/does_not_exist.wb"; // both creations must fail alike
      else if (rng.chance(0.06))
        {
          // a file name that ends in a blank (and a file of the plain name next to it with other content)
          n.file = p.w.name + " ";
          s.files[n.file] = p.w.content;
          if (!all.empty())
            s.files[p.w.name] = cat[all[rng.below(all.size())]].content;
        }
      else if (n.has_outdir == 1 && frng.chance(0.12))
        {
          simfs::Fault f;
          f.kind = simfs::F_OPEN_FAIL;
          f.path = n.outdir + "world_builder_declarations.tex";
          f.a = 13; // EACCES
          n.faults.push_back(f);
        }
      n.eq = "create" + std::to_string(eqn++);
      Op w = n;
      w.kind = p.kind;
      w.h = p.hw;
      s.ops.push_back(n);
      s.ops.push_back(w);
      p.alive = true;
    };
    for (auto &p : pairs)
      create_pair(p);
    if (rng.chance(0.3))
      {
        // a second native/wrapped pair created with exactly the arguments of the first one: two handles made
        // alike are still two worlds (own random engine, own copy of the file)
        Pair q = pairs[0];
        q.hn = 2 * static_cast<int>(pairs.size());
        q.hw = q.hn + 1;
        const size_t first_create = 0;
        Op n2 = s.ops[first_create], w2 = s.ops[first_create + 1];
        n2.h = q.hn;
        w2.h = q.hw;
        n2.eq = w2.eq = "create" + std::to_string(eqn++);
        s.ops.push_back(n2);
        s.ops.push_back(w2);
        q.alive = true;
        pairs.push_back(q);
        s.generator = "c16+same-args";
      }
    if (rng.chance(0.15) && pairs[0].kind == "c" && !pairs[0].w.random)
      {
        // concurrent clients of one C handle next to a client of the native twin: the wrapper must stay
        // transparent when its functions are entered by several threads (the library itself is re-entrant, C14)
        s.generator = "c16+threads";
        s.engine_model = false;
        const Pair &p = pairs[0];
        std::vector<Op> tn, tw, tw2;
        const int n = static_cast<int>(rng.range(5, 25));
        Slot dummy;
        for (int i = 0; i < n; ++i)
          {
            Op q;
            fill_query(q, p.w, dummy, rng, false, true);
            if (q.via == "grains" || q.via == "temperature_g")
              q.via = "properties";
            q.h = p.hn;
            q.eq = "t" + std::to_string(i);
            tn.push_back(q);
            q.h = p.hw;
            tw.push_back(q);
            Op o;
            fill_query(o, p.w, dummy, rng, false, true);
            if (o.via == "grains" || o.via == "temperature_g")
              o.via = "properties";
            o.h = p.hw;
            o.eq = "u" + std::to_string(i);
            tw2.push_back(o);
            o.h = p.hn;
            s.ops.push_back(o); // the native answer to the second client's question, asked beforehand
          }
        s.threads.push_back(tn);
        s.threads.push_back(tw);
        s.threads.push_back(tw2);
        Rng srng = stream(rs, "schedule");
        s.sched = random_sched(srng, 3);
        return true;
      }
    const int nops = static_cast<int>(tier == "thorough" ? rng.range(10, 80) : rng.range(8, 40));
    for (int i = 0; i < nops; ++i)
      {
        Pair &p = pairs[rng.below(pairs.size())];
        const double sel = rng.real();
        if (!p.alive)
          {
            create_pair(p);
            continue;
          }
        if (sel < 0.05)
          {
            Op d;
            d.op = "destroy";
            d.h = p.hn;
            s.ops.push_back(d);
            d.h = p.hw;
            s.ops.push_back(d);
            p.alive = false;
            continue;
          }
        Op q;
        if (sel < 0.12 && p.kind == "c")
          {
            q.op = "size";
            q.props = random_props(p.w, rng, 8, true);
          }
        else if (sel < 0.30 && p.has_last)
          {
            // the question just asked once more, or its counterpart in the other dimension at the same numbers:
            // (x,z) in the cross section and (x,0,z) in space are different places unless the section is the x axis
            q = p.last;
            q.eq.clear();
            if (rng.chance(0.5))
              {
                if (q.op == "q2")
                  {
                    q.op = "q3";
                    q.p[2] = q.p[1];
                    q.p[1] = 0;
                  }
                else if (p.w.has_cs)
                  {
                    q.op = "q2";
                    q.p[1] = q.p[2];
                    q.p[2] = 0;
                  }
              }
          }
        else
          {
            fill_query(q, p.w, p.slot, rng, true, true);
            if (p.kind == "cpp" && q.via != "temperature" && q.via != "temperature_g" && q.via != "composition")
              {
                q.via = rng.chance(0.5) ? "temperature" : "composition";
                q.props = q.via == "temperature" ? std::vector<Prop> {Prop{{1, 0, 0}}} : std::vector<Prop> {Prop{{2, static_cast<unsigned>(rng.below(5)), 0}}};
              }
            if (p.kind == "c" && q.via == "grains")
              q.via = "properties";
            if (p.kind == "c" && q.via == "temperature_g")
              q.via = "temperature";
          }
        q.eq = "q" + std::to_string(eqn++);
        q.h = p.hn;
        if (q.op != "size")
          {
            p.last = q;
            p.has_last = true;
          }
        Op w = q;
        w.h = p.hw;
        if (rng.chance(0.5))
          {
            s.ops.push_back(q);
            s.ops.push_back(w);
          }
        else
          {
            s.ops.push_back(w);
            s.ops.push_back(q);
          }
      }
    return true;
  }

  // ------------------------------------------------------------------ dispatch
  bool generate(const std::string &property, uint64_t seed, uint64_t run, const std::string &tier, Scenario &out)
  {
    out = Scenario();
    if (tier.size() > 5 && tier.compare(tier.size() - 5, 5, "+cold") == 0)
      {
        // cold-start scenarios (executed as the first thing a fresh process does): only C12 has them
        const std::string base_tier = tier.substr(0, tier.size() - 5);
        return property == "C12" && gen_c12_cold(seed, run, base_tier, out);
      }
    if (property == "C01")
      return gen_c01(seed, run, tier, out);
    if (property == "C07")
      return gen_c07(seed, run, tier, out);
    if (property == "C12")
      return gen_c12(seed, run, tier, out);
    if (property == "C14")
      return gen_c14(seed, run, tier, out);
    if (property == "C17")
      return gen_c17(seed, run, tier, out);
    if (property == "C18")
      return gen_c18(seed, run, tier, out);
    if (property == "C15")
      return gen_c15(seed, run, tier, out);
    if (property == "C16")
      return gen_c16(seed, run, tier, out);
    return false;
  }
}
