// Scenario generators: everything a run does is materialised here from the
// run seed, before anything is executed.
#include "gen.h"

#include <algorithm>
#include <cmath>
#include <sstream>

namespace sim
{
  SchedParams random_sched(Rng &rng, int ntasks_hint)
  {
    SchedParams p;
    p.seed = rng.next();
    static const double pc[] = {0.5, 0.9, 0.99};
    const int s = static_cast<int>(rng.below(10));
    if (s < 3)
      p.strategy = S_RANDOM;
    else if (s < 5)
      {
        p.strategy = S_BURST;
        p.p_continue = pc[rng.below(3)];
      }
    else if (s < 6)
      {
        p.strategy = S_RR;
        p.quantum = static_cast<int>(rng.range(1, 7));
      }
    else if (s < 8)
      {
        p.strategy = S_PCT;
        p.pct_d = static_cast<int>(rng.range(1, 3));
        p.pct_k = static_cast<int>(rng.range(50, 3000));
      }
    else
      {
        p.strategy = S_STARVE;
        p.victim = static_cast<int>(rng.range(1, std::max(1, ntasks_hint)));
        p.p_continue = pc[rng.below(3)];
      }
    p.step_cap = 200000;
    return p;
  }

  // ------------------------------------------------------------------ C01
  namespace
  {
    struct Slot
    {
      bool alive = false;
      const WorldInfo *w = nullptr;
      std::string path;
      std::vector<ProbePoint> used;
    };

    void fill_query(Op &op, const WorldInfo &w, Slot &slot, Rng &rng, bool allow_invalid, bool allow_grains)
    {
      ProbePoint pp;
      if (!slot.used.empty() && rng.chance(0.3))
        pp = slot.used[rng.below(slot.used.size())];
      else
        {
          pp = probe_point(w, rng);
          if (slot.used.size() < 64)
            slot.used.push_back(pp);
        }
      const bool two = w.has_cs ? rng.chance(0.45) : rng.chance(0.03);
      op.op = two ? "q2" : "q3";
      if (two)
        {
          op.p[0] = pp.p2[0];
          op.p[1] = pp.p2[1];
          op.p[2] = 0;
        }
      else
        for (int i = 0; i < 3; ++i)
          op.p[i] = pp.p3[i];
      op.d = pp.depth;
      const double v = rng.real();
      if (v < 0.75)
        {
          op.via = "properties";
          op.props = random_props(w, rng, rng.chance(0.8) ? 4 : 8, allow_invalid, allow_grains);
        }
      else if (v < 0.85)
        {
          op.via = rng.chance(0.3) ? "temperature_g" : "temperature";
          op.props = {Prop{{1, 0, 0}}};
        }
      else if (v < 0.95 || !allow_grains)
        {
          op.via = "composition";
          op.props = {Prop{{2, static_cast<unsigned>(rng.below(static_cast<uint64_t>(w.max_comp + 3))), 0}}};
        }
      else
        {
          op.via = "grains";
          op.props = {Prop{{3, static_cast<unsigned>(rng.below(static_cast<uint64_t>(w.max_comp + 2))), static_cast<unsigned>(rng.below(4))}}};
        }
    }
  }

  bool gen_c01(uint64_t seed, uint64_t run, const std::string &tier, Scenario &s)
  {
    const uint64_t rs = hash_mix(seed, run);
    Rng rng = stream(rs, "workload");
    Rng frng = stream(rs, "faults");
    s.property = "C01";
    s.seed = seed;
    s.run = run;
    s.oracle = "stateless";
    s.generator = "c01";
    const auto &cat = corpus();
    const auto &ok = corpus_buildable(false, false);
    // the files of this run: corpus worlds and generated ones
    const int nfiles = static_cast<int>(rng.range(1, 3));
    std::vector<WorldInfo> infos;
    for (int i = 0; i < nfiles; ++i)
      {
        WorldInfo w;
        if (rng.chance(0.45) || ok.empty())
          {
            GenWorld g = gen_rich_world(rng, false);
            w = analyse_world("gen" + std::to_string(i) + ".wb", g.json);
            s.generator = "c01+rich";
          }
        else
          w = cat[ok[rng.below(ok.size())]];
        w.name = "/simfs/w" + std::to_string(i) + "_" + w.name;
        infos.push_back(w);
        s.files[w.name] = w.content;
      }
    const bool alloc_faults = frng.chance(0.2);
    const int nslots = static_cast<int>(rng.range(1, 4));
    std::vector<Slot> slots(static_cast<size_t>(nslots));
    const int nops = static_cast<int>(tier == "thorough" ? rng.range(20, 200) : rng.range(15, 70));
    auto create = [&](int h)
    {
      Op op;
      op.op = "create";
      op.h = h;
      const WorldInfo &w = infos[rng.below(infos.size())];
      op.file = w.name;
      op.seed = static_cast<unsigned long>(rng.range(0, 5));
      slots[static_cast<size_t>(h)].alive = true;
      slots[static_cast<size_t>(h)].w = &w;
      slots[static_cast<size_t>(h)].used.clear();
      s.ops.push_back(op);
    };
    create(0);
    for (int i = 0; i < nops; ++i)
      {
        const int h = static_cast<int>(rng.below(static_cast<uint64_t>(nslots)));
        Slot &slot = slots[static_cast<size_t>(h)];
        const double sel = rng.real();
        if (!slot.alive)
          {
            if (sel < 0.5)
              create(h);
            continue;
          }
        if (sel < 0.03)
          {
            Op op;
            op.op = "destroy";
            op.h = h;
            slot.alive = false;
            s.ops.push_back(op);
          }
        else if (sel < 0.08)
          {
            Op op;
            op.op = "size";
            op.h = h;
            op.props = random_props(*slot.w, rng, 8, true);
            s.ops.push_back(op);
          }
        else if (sel < 0.11 && !slot.w->feature_names.empty())
          {
            Op op;
            op.op = "dist";
            op.h = h;
            const ProbePoint pp = probe_point(*slot.w, rng);
            for (int k = 0; k < 3; ++k)
              op.p[k] = pp.p3[k];
            op.d = pp.depth;
            op.name = slot.w->feature_names[rng.below(slot.w->feature_names.size())];
            // the same question twice, with other ops in between, must give the same answer
            op.eq = "dist" + std::to_string(s.ops.size());
            s.ops.push_back(op);
            Op q;
            fill_query(q, *slot.w, slot, rng, true, true);
            q.h = h;
            s.ops.push_back(q);
            s.ops.push_back(op);
          }
        else
          {
            Op op;
            fill_query(op, *slot.w, slot, rng, true, true);
            op.h = h;
            if (alloc_faults && frng.chance(0.08))
              op.alloc_fail = frng.range(1, 30);
            s.ops.push_back(op);
          }
      }
    return true;
  }

  // ------------------------------------------------------------------ dispatch
  bool generate(const std::string &property, uint64_t seed, uint64_t run, const std::string &tier, Scenario &out)
  {
    out = Scenario();
    if (property == "C01")
      return gen_c01(seed, run, tier, out);
    return false;
  }
}
