// World catalogue: the corpus snapshot (/verif/corpus/*.wb) plus analysis of a
// world file (coordinate system, cross section, extents, random models ...)
// and seeded probe-point generation.
#ifndef SIM_WORLDS_H
#define SIM_WORLDS_H
#include "sim.h"

namespace sim
{
  struct WorldInfo
  {
    std::string name;
    std::string content;
    bool parse_ok = false;
    bool spherical = false;
    double radius = 6371000.0;
    bool has_cs = false;
    double cs[2][2] = {{0, 0}, {0, 0}};
    bool random = false;           // uses a random model
    bool has_grains = false;
    bool has_velocity = false;
    bool force_surface_t = false;
    int max_comp = 0;
    double xmin = 0, xmax = 1, ymin = 0, ymax = 1;
    double max_depth = 600e3;
    std::vector<std::array<double, 2>> coords;
    std::vector<std::array<double, 2>> surface_points; // points of depth surfaces given as values at points
    std::vector<double> depth_values;                  // depths named in the file (feature/model ranges, surface values)
    std::vector<std::string> feature_names;
    std::vector<std::string> feature_models;
    size_t n_features = 0;
    // generated "edge" worlds: a depth surface with a triangle edge along x = edge_c (or y = edge_c)
    bool edge_world = false;
    bool edge_vertical = true;
    double edge_c = 0, edge_lo = 0, edge_hi = 0, edge_depth = 0;
  };

  WorldInfo analyse_world(const std::string &name, const std::string &content);
  const std::vector<WorldInfo> &corpus();
  // worlds of the corpus the unchanged library builds (checked once per process, lazily)
  const std::vector<size_t> &corpus_buildable(bool allow_random, bool only_random);

  struct ProbePoint
  {
    double p3[3];
    double p2[2];
    double depth;
    bool has2 = false;
  };
  ProbePoint probe_point(const WorldInfo &w, Rng &rng);
  // natural surface coordinates (x,y or lon,lat in degrees) + depth -> cartesian point as the API expects it
  void natural_to_query(const WorldInfo &w, double x, double y, double depth, double out[3]);

  std::vector<Prop> random_props(const WorldInfo &w, Rng &rng, int max_len, bool allow_invalid, bool allow_grains = true);
  std::string read_file(const std::string &path);
  bool write_file(const std::string &path, const std::string &content);
}
#endif
