// Seeded PRNG used for every choice of the simulator: splitmix64 for seeding,
// xoshiro256** for streams.  No other source of randomness is used anywhere.
#ifndef SIM_RNG_H
#define SIM_RNG_H
#include <cstdint>
#include <cstddef>

namespace sim
{
  inline uint64_t splitmix64(uint64_t &x)
  {
    uint64_t z = (x += 0x9e3779b97f4a7c15ULL);
    z = (z ^ (z >> 30)) * 0xbf58476d1ce4e5b9ULL;
    z = (z ^ (z >> 27)) * 0x94d049bb133111ebULL;
    return z ^ (z >> 31);
  }

  inline uint64_t hash_mix(uint64_t a, uint64_t b)
  {
    uint64_t x = a ^ (b + 0x9e3779b97f4a7c15ULL + (a << 6) + (a >> 2));
    return splitmix64(x);
  }

  inline uint64_t hash_str(const char *s)
  {
    uint64_t h = 1469598103934665603ULL;
    for (; *s; ++s)
      {
        h ^= static_cast<unsigned char>(*s);
        h *= 1099511628211ULL;
      }
    return h;
  }

  struct Rng
  {
    uint64_t s[4];
    explicit Rng(uint64_t seed = 1)
    {
      reseed(seed);
    }
    void reseed(uint64_t seed)
    {
      uint64_t x = seed;
      for (auto &v : s) v = splitmix64(x);
    }
    static uint64_t rotl(uint64_t x, int k)
    {
      return (x << k) | (x >> (64 - k));
    }
    uint64_t next()
    {
      const uint64_t result = rotl(s[1] * 5, 7) * 9;
      const uint64_t t = s[1] << 17;
      s[2] ^= s[0];
      s[3] ^= s[1];
      s[1] ^= s[2];
      s[0] ^= s[3];
      s[2] ^= t;
      s[3] = rotl(s[3], 45);
      return result;
    }
    // uniform in [0,n)
    uint64_t below(uint64_t n)
    {
      return n == 0 ? 0 : next() % n;
    }
    // uniform integer in [a,b]
    long range(long a, long b)
    {
      return a + static_cast<long>(below(static_cast<uint64_t>(b - a + 1)));
    }
    // uniform in [0,1)
    double real()
    {
      return static_cast<double>(next() >> 11) * (1.0 / 9007199254740992.0);
    }
    double real(double a, double b)
    {
      return a + (b - a) * real();
    }
    bool chance(double p)
    {
      return real() < p;
    }
  };

  // a stream derived from a run seed and a name, so that shrinking one
  // dimension does not reshuffle the others
  inline Rng stream(uint64_t run_seed, const char *name)
  {
    return Rng(hash_mix(run_seed, hash_str(name)));
  }
}
#endif
