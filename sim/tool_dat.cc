// gwb-dat's own main.cc compiled into the simulator (`main` renamed).
#include "app/main.h"
#include "world_builder/assert.h"
#include "world_builder/consts.h"
#include "world_builder/point.h"
#include "world_builder/utilities.h"
#include "world_builder/world.h"
#include <algorithm>
#include <fstream>
#include <iostream>
#include <iterator>
#include <memory>
#include <sstream>

#include "sim.h"

#define main gwb_dat_main
#define find_command_line_option gwb_dat_find_command_line_option
#include "source/gwb-dat/main.cc"
#undef find_command_line_option
#undef main

namespace sim
{
  int run_gwb_dat(const std::vector<std::string> &args)
  {
    std::vector<std::vector<char>> store;
    std::vector<char *> argv;
    for (const auto &a : args)
      {
        store.emplace_back(a.begin(), a.end());
        store.back().push_back('\0');
      }
    for (auto &s : store)
      argv.push_back(s.data());
    argv.push_back(nullptr);
    return gwb_dat_main(static_cast<int>(args.size()), argv.data());
  }
}
