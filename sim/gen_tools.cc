// Generators for the scenarios that involve threads and the two tools:
// C14 (concurrent clients; gwb-grid -j), C17 (gwb-dat), C18 (gwb-grid).
#include "gen.h"

#include <algorithm>
#include <cmath>
#include <cstdio>
#include <sstream>

namespace sim
{
  namespace
  {
    std::string fnum(double v)
    {
      char b[48];
      if (std::fabs(v) < 1e15 && v == std::floor(v))
        std::snprintf(b, sizeof(b), "%.0f", v);
      else
        std::snprintf(b, sizeof(b), "%.17g", v);
      return b;
    }

    struct GridSpec
    {
      std::string type;
      int dim = 3;
      int compositions = 0;
      std::string format = "ASCII";
      double x_min = 0, x_max = 1, y_min = 0, y_max = 1, z_min = 0, z_max = 1;
      int nx = 1, ny = 1, nz = 1;
      size_t nodes() const
      {
        if (type == "sphere")
          return static_cast<size_t>(12 * nx * nx + 2) * static_cast<size_t>(nz + 1);
        if (type == "annulus")
          {
            const double dr = (z_max - z_min) / nz;
            return static_cast<size_t>(2.0 * M_PI * z_max / dr) * static_cast<size_t>(nz + 1);
          }
        return static_cast<size_t>(nx + 1) * static_cast<size_t>(nz + 1) * (dim == 3 ? static_cast<size_t>(ny + 1) : 1);
      }
    };

    GridSpec random_grid(const WorldInfo &w, Rng &rng, size_t max_nodes, bool allow_2d)
    {
      GridSpec g;
      const bool can2 = allow_2d && w.has_cs;
      for (int attempt = 0; attempt < 50; ++attempt)
        {
          g = GridSpec();
          if (w.spherical)
            {
              const double s = rng.real();
              if (s < 0.5)
                g.type = "chunk";
              else if (s < 0.75 && can2)
                g.type = "annulus";
              else if (s < 0.75)
                g.type = "chunk";
              else
                g.type = "sphere";
            }
          else
            g.type = "cartesian";
          if (g.type == "annulus")
            g.dim = 2;
          else if (g.type == "sphere")
            g.dim = 3;
          else
            g.dim = (can2 && rng.chance(0.4)) ? 2 : 3;
          g.compositions = static_cast<int>(rng.below(6));
          g.nx = static_cast<int>(rng.range(1, 12));
          g.ny = static_cast<int>(rng.range(1, 12));
          g.nz = static_cast<int>(rng.range(1, 12));
          if (rng.chance(0.15))
            g.nx = g.ny = g.nz = 1; // single cell
          const double depth = std::min(w.max_depth * rng.real(0.3, 1.5) + 10e3, w.spherical ? 0.7 * w.radius : 3000e3);
          if (g.type == "cartesian")
            {
              if (g.dim == 2)
                {
                  // x runs along the cross section
                  const double len = std::sqrt(std::pow(w.cs[1][0] - w.cs[0][0], 2) + std::pow(w.cs[1][1] - w.cs[0][1], 2));
                  g.x_min = len * rng.real(-0.2, 0.4);
                  g.x_max = g.x_min + len * rng.real(0.1, 0.9);
                }
              else
                {
                  g.x_min = w.xmin + (w.xmax - w.xmin) * rng.real(-0.3, 0.5);
                  g.x_max = g.x_min + (w.xmax - w.xmin) * rng.real(0.1, 1.0);
                }
              g.y_min = w.ymin + (w.ymax - w.ymin) * rng.real(-0.3, 0.5);
              g.y_max = g.y_min + (w.ymax - w.ymin) * rng.real(0.1, 1.0);
              g.z_max = rng.chance(0.6) ? 0.0 : rng.real(-50e3, 800e3);
              g.z_min = g.z_max - depth;
            }
          else if (g.type == "chunk")
            {
              if (g.dim == 2)
                {
                  const double len = std::sqrt(std::pow(w.cs[1][0] - w.cs[0][0], 2) + std::pow(w.cs[1][1] - w.cs[0][1], 2));
                  g.x_min = len * rng.real(-0.2, 0.4);
                  g.x_max = g.x_min + std::max(0.5, len * rng.real(0.1, 0.9));
                }
              else
                {
                  g.x_min = w.xmin + (w.xmax - w.xmin) * rng.real(-0.3, 0.5);
                  g.x_max = g.x_min + std::max(0.5, (w.xmax - w.xmin) * rng.real(0.1, 1.0));
                }
              // longitudes stay within the documented range and span at most half a turn
              g.x_min = std::max(-180.0, std::min(180.0, g.x_min));
              g.x_max = std::min(g.x_min + 180.0, std::max(g.x_min + 0.5, g.x_max));
              g.y_min = std::max(-89.0, w.ymin + (w.ymax - w.ymin) * rng.real(-0.3, 0.5));
              g.y_max = std::min(89.5, g.y_min + std::max(0.5, (w.ymax - w.ymin) * rng.real(0.1, 1.0)));
              g.z_max = w.radius;
              g.z_min = w.radius - depth;
            }
          else if (g.type == "annulus")
            {
              g.x_min = -25;
              g.x_max = 25;
              g.y_min = -25;
              g.y_max = 25;
              g.z_max = w.radius;
              g.z_min = w.radius * rng.real(0.2, 0.6);
              g.nz = static_cast<int>(rng.range(1, 5));
            }
          else
            {
              g.nx = g.ny = static_cast<int>(rng.range(1, 4));
              g.nz = static_cast<int>(rng.range(1, 4));
              g.x_min = g.y_min = 0;
              g.x_max = g.y_max = 1;
              g.z_max = w.radius;
              // now and then a full ball: the innermost layer is the centre itself
              g.z_min = rng.chance(0.15) ? 0.0 : w.radius * rng.real(0.3, 0.8);
            }
          if (g.type == "cartesian" && !w.feature_names.empty() && w.feature_names[0] == "slow slab" && w.has_cs)
            {
              // the grid covers the slab down to where the library starts refusing nodes
              g.x_min = g.dim == 2 ? 0.0 : w.cs[0][0];
              g.x_max = g.dim == 2 ? 900e3 : w.cs[1][0];
              g.y_min = 0;
              g.y_max = 100e3;
              g.z_min = 0;
              g.z_max = rng.real(450e3, 600e3);
              g.nx = static_cast<int>(rng.range(8, 14));
              g.ny = static_cast<int>(rng.range(1, 2));
              g.nz = static_cast<int>(rng.range(10, 16));
            }
          if (g.nodes() <= max_nodes && g.nodes() >= 1)
            break;
          // too large: shrink the counts and retry
        }
      while (g.nodes() > max_nodes)
        {
          if (g.nx > 1) --g.nx;
          if (g.type == "sphere") g.ny = g.nx;
          else if (g.ny > 1) --g.ny;
          if (g.nz > 1) --g.nz;
          if (g.nx == 1 && g.ny == 1 && g.nz == 1)
            break;
        }
      return g;
    }

    std::string grid_text(const GridSpec &g, Rng &rng)
    {
      std::vector<std::string> lines;
      auto kv = [&](const std::string &k, const std::string &v)
      {
        lines.push_back(k + " = " + v);
      };
      kv("grid_type", g.type);
      kv("dim", std::to_string(g.dim));
      kv("compositions", std::to_string(g.compositions));
      kv("vtu_output_format", g.format);
      kv("x_min", fnum(g.x_min));
      kv("x_max", fnum(g.x_max));
      kv("y_min", fnum(g.y_min));
      kv("y_max", fnum(g.y_max));
      kv("z_min", fnum(g.z_min));
      kv("z_max", fnum(g.z_max));
      kv("n_cell_x", std::to_string(g.nx));
      kv("n_cell_y", std::to_string(g.ny));
      kv("n_cell_z", std::to_string(g.nz));
      // any order
      for (size_t i = lines.size(); i > 1; --i)
        std::swap(lines[i - 1], lines[rng.below(i)]);
      // a repeated key: the last one wins, so put a decoy first
      if (rng.chance(0.2))
        lines.insert(lines.begin(), "n_cell_z = 3");
      if (rng.chance(0.2))
        lines.insert(lines.begin(), "compositions = 1");
      std::string out;
      for (const auto &l : lines)
        {
          if (rng.chance(0.15))
            out += "# a comment line\n";
          if (rng.chance(0.1))
            out += "\n";
          out += l + "\n";
        }
      if (rng.chance(0.3))
        out += "# trailing comment without newline";
      return out;
    }

    // worlds a tool can sensibly be run on
    WorldInfo pick_world(Rng &rng, bool need_cs, bool allow_random, std::string &origin)
    {
      const auto &cat = corpus();
      const auto &ok = corpus_buildable(allow_random, false);
      for (int tries = 0; tries < 40; ++tries)
        {
          WorldInfo w;
          if (rng.chance(0.5) && !ok.empty())
            {
              w = cat[ok[rng.below(ok.size())]];
              origin = "corpus";
            }
          else if (rng.chance(0.12))
            {
              GenWorld g = gen_refusing_world(rng);
              w = analyse_world("gen.wb", g.json);
              origin = "refusing";
            }
          else if (rng.chance(0.25))
            {
              // area features with depth surfaces: now and then the library refuses a node of such a world
              GenWorld g = gen_surface_world(rng);
              w = analyse_world("gen.wb", g.json);
              origin = "surface";
            }
          else
            {
              GenWorld g = gen_rich_world(rng, false);
              w = analyse_world("gen.wb", g.json);
              origin = "rich";
            }
          if (w.content.find("\"continuous\"") != std::string::npos)
            continue; // a depth method the library refuses: nothing for a tool to work on
          if (!need_cs || w.has_cs)
            return w;
        }
      GenWorld g = gen_rich_world(rng, false);
      WorldInfo w = analyse_world("gen.wb", g.json);
      return w;
    }
  }

  // ------------------------------------------------------------------ C14
  bool gen_c14(uint64_t seed, uint64_t run, const std::string &tier, Scenario &s)
  {
    const uint64_t rs = hash_mix(seed, run);
    Rng rng = stream(rs, "workload");
    Rng srng = stream(rs, "schedule");
    s.property = "C14";
    s.seed = seed;
    s.run = run;
    const bool part_b = rng.chance(0.5);
    if (!part_b)
      {
        // ---- part A: concurrent clients on shared worlds
        s.generator = "c14/clients";
        s.oracle = "stateless";
        const int nworlds = static_cast<int>(rng.range(1, 2));
        std::vector<WorldInfo> ws;
        for (int i = 0; i < nworlds; ++i)
          {
            std::string origin;
            WorldInfo w = pick_world(rng, false, false, origin);
            w.name = "/simfs/w" + std::to_string(i) + "_" + w.name.substr(w.name.find_last_of('/') + 1);
            s.files[w.name] = w.content;
            ws.push_back(w);
            Op c;
            c.op = "create";
            c.h = i;
            c.file = w.name;
            s.ops.push_back(c);
          }
        static const int tcounts[] = {2, 2, 3, 3, 4, 5, 8, 12, 16, 32};
        const int T = tcounts[rng.below(tier == "thorough" ? 10 : 8)];
        // now and then the clients ask (almost) nothing but distances to the named features of the first world
        const bool distance_storm = ws[0].feature_names.size() >= 2 && rng.chance(0.12);
        if (distance_storm)
          s.generator = "c14/clients+distances";
        std::vector<Slot> slots(ws.size());
        for (int t = 0; t < T; ++t)
          {
            std::vector<Op> ops;
            const int n = static_cast<int>(rng.range(3, T > 8 ? 12 : 30));
            for (int i = 0; i < n; ++i)
              {
                const size_t wi = rng.below(ws.size());
                Op q;
                const double sel = rng.real();
                if (sel < 0.05)
                  {
                    q.op = "size";
                    q.props = random_props(ws[wi], rng, 8, true);
                  }
                else if ((sel < 0.1 || (distance_storm && wi == 0 && sel < 0.9)) && !ws[wi].feature_names.empty())
                  {
                    q.op = "dist";
                    const ProbePoint pp = probe_point(ws[wi], rng);
                    for (int k = 0; k < 3; ++k)
                      q.p[k] = pp.p3[k];
                    q.d = pp.depth;
                    q.name = ws[wi].feature_names[rng.below(ws[wi].feature_names.size())];
                  }
                else
                  fill_query(q, ws[wi], slots[wi], rng, true, true);
                q.h = static_cast<int>(wi);
                ops.push_back(q);
              }
            s.threads.push_back(ops);
          }
        s.sched = random_sched(srng, T);
        if (distance_storm && srng.chance(0.7))
          {
            // short slices: the interesting interleavings are inside one call
            static const uint32_t mean[] = {20, 50, 100, 300};
            s.sched.preempt = mean[srng.below(4)];
          }
        return true;
      }
    // ---- part B: gwb-grid with -j N against -j 1
    s.generator = "c14/grid";
    std::string origin;
    WorldInfo w = pick_world(rng, rng.chance(0.4), false, origin);
    const std::string wb = "/simfs/model.wb", grid = "/simfs/model.grid";
    s.files[wb] = w.content;
    GridSpec g = random_grid(w, rng, tier == "thorough" ? 600 : 300, true);
    if (rng.chance(0.3))
      g.format = "base64inline";
    s.files[grid] = grid_text(g, rng);
    // every thread count of the documented range, small ones a little more often
    const int N = rng.chance(0.25) ? static_cast<int>(rng.range(2, 6)) : static_cast<int>(rng.range(2, 40));
    std::vector<std::string> flags;
    if (rng.chance(0.3))
      flags.push_back("--filtered");
    if (rng.chance(0.3))
      flags.push_back("--by-tag");
    auto tool = [&](int n, const SchedParams &sp)
    {
      Op t;
      t.op = "tool";
      t.tool = "grid";
      t.argv = {"gwb-grid", "-j", std::to_string(n)};
      for (const auto &f : flags)
        t.argv.push_back(f);
      t.argv.push_back(wb);
      t.argv.push_back(grid);
      t.sched = sp;
      t.eq = "grid";
      return t;
    };
    SchedParams seq;
    seq.strategy = S_SEQ;
    s.ops.push_back(tool(1, seq));
    s.ops.push_back(tool(N, random_sched(srng, std::min(N, static_cast<int>(g.nodes())))));
    // "this rare condition was reached" probes
    if (static_cast<size_t>(N) > g.nodes())
      s.ops.back().note = "more_threads_than_nodes";
    else if (g.nodes() % static_cast<size_t>(N) != 0)
      s.ops.back().note = "nodes_not_divisible_by_threads";
    else
      s.ops.back().note = "nodes_divisible_by_threads";
    s.probes.push_back("nodes=" + std::to_string(g.nodes()) + " N=" + std::to_string(N));
    return true;
  }

  // ------------------------------------------------------------------ C17
  bool gen_c17(uint64_t seed, uint64_t run, const std::string &tier, Scenario &s)
  {
    const uint64_t rs = hash_mix(seed, run);
    Rng rng = stream(rs, "workload");
    Rng frng = stream(rs, "faults");
    s.property = "C17";
    s.seed = seed;
    s.run = run;
    s.generator = "c17";
    std::string origin;
    const bool want2 = rng.chance(0.5);
    WorldInfo w = pick_world(rng, want2, rng.chance(0.2), origin);
    const std::string wb = "/simfs/model.wb", dat = "/simfs/points.dat";
    s.files[wb] = w.content;
    const int dim = (w.has_cs && want2) ? 2 : 3;
    // the option converts the rows whatever the coordinate system of the world is
    const bool convert = dim == 3 && rng.chance(w.spherical ? 0.5 : 0.12);
    const int compositions = static_cast<int>(rng.below(rng.chance(0.8) ? 4 : 10));
    const int gcomp = rng.chance(0.35) ? static_cast<int>(rng.chance(0.3) ? rng.range(3, 5) : rng.range(1, 3)) : 0;
    const int ngrains = gcomp ? static_cast<int>(rng.range(0, 4)) : (rng.chance(0.1) ? 2 : 0);
    const bool comma = rng.chance(0.3);
    const int malformed_mode = rng.chance(0.12) ? static_cast<int>(rng.range(1, 6)) : 0;
    std::ostringstream o;
    // comment and option lines are recognised by their first word, so they may be indented
    const std::string indent = rng.chance(0.12) ? (rng.chance(0.5) ? "   " : "\t") : "";
    auto opt = [&](const std::string &line)
    {
      o << indent << line << "\n";
    };
    if (rng.chance(0.5))
      opt("# This is a comment in the data");
    if (dim == 2 || rng.chance(0.5))
      opt("# dim = " + std::to_string(dim));
    // options are honoured wherever they stand in the file: sometimes the only 'compositions' line comes late
    const bool late_compositions = compositions > 0 && rng.chance(0.2);
    if (!late_compositions && (compositions > 0 || rng.chance(0.3)))
      opt("# compositions = " + std::to_string(compositions));
    if (gcomp > 0 || rng.chance(0.1))
      opt("# grain compositions = " + std::to_string(gcomp));
    if (ngrains > 0 || gcomp > 0)
      opt("# number of grains = " + std::to_string(ngrains));
    if (convert)
      opt("# convert spherical = true");
    else if (rng.chance(0.1))
      opt("# convert spherical = false");
    if (malformed_mode == 1)
      opt("#");                       // a bare hash
    if (malformed_mode == 2)
      opt("# dim =");                 // an option without its value
    if (malformed_mode == 3)
      opt("# compositions");          // fewer words than the option needs
    if (rng.chance(0.3))
      opt("# x y z d g T c0 c1");
    const int rows = static_cast<int>(tier == "thorough" ? rng.range(1, 60) : rng.range(1, 25));
    // sometimes the points sit on a coarse integer lattice (whole degrees, whole kilometres), with repeats
    const bool integer_rows = rng.chance(0.2);
    const double shared_k = static_cast<double>(rng.below(4)) * 10.0; // all integer rows of a file share radius and depth
    for (int i = 0; i < rows; ++i)
      {
        ProbePoint pp = probe_point(w, rng);
        if (integer_rows)
          {
            static const double small[] = {1, 2, 11, 12, 21, 22, 111, 112, 0, 5};
            if (dim == 2)
              {
                pp.p2[0] = std::round(pp.p2[0] / 1000.0) * 1000.0;
                pp.p2[1] = std::round(pp.p2[1] / 1000.0) * 1000.0;
              }
            else if (convert)
              {
                const double rr = std::round((w.radius - shared_k * 1000.0));
                pp.depth = shared_k * 1000.0;
                const double lon = small[rng.below(8)] * M_PI / 180.0, lat = small[rng.below(6)] * M_PI / 180.0;
                pp.p3[0] = rr * std::cos(lat) * std::cos(lon);
                pp.p3[1] = rr * std::cos(lat) * std::sin(lon);
                pp.p3[2] = rr * std::sin(lat);
              }
            else
              for (int k = 0; k < 3; ++k)
                pp.p3[k] = std::round(pp.p3[k] / 1000.0) * 1000.0;
            if (!convert)
              pp.depth = std::round(pp.depth / 1000.0) * 1000.0;
          }
        std::vector<std::string> f;
        if (dim == 2)
          f = {fnum(pp.p2[0]), fnum(pp.p2[1]), fnum(pp.depth)};
        else if (convert)
          {
            // radius, longitude, latitude in degrees
            double r = std::sqrt(pp.p3[0] * pp.p3[0] + pp.p3[1] * pp.p3[1] + pp.p3[2] * pp.p3[2]);
            double lon = std::atan2(pp.p3[1], pp.p3[0]) * 180.0 / M_PI;
            double lat = r > 0 ? std::asin(pp.p3[2] / r) * 180.0 / M_PI : 0.0;
            if (integer_rows)
              {
                r = std::round(r);
                lon = std::round(lon);
                lat = std::round(lat);
              }
            f = {fnum(r), fnum(lon), fnum(lat), fnum(pp.depth)};
          }
        else
          f = {fnum(pp.p3[0]), fnum(pp.p3[1]), fnum(pp.p3[2]), fnum(pp.depth)};
        if (malformed_mode == 4 && i == rows / 2)
          f.pop_back();                 // too few fields
        if (malformed_mode == 5 && i == rows / 2)
          f.push_back("17");            // too many fields
        if (malformed_mode == 6 && i == rows / 2)
          {
            // not a number, or a number followed by something else
            static const char *bad[] = {"abc", "15o000", "150e3m", "1.500.000", "0x10", "inf", "nan", "--5", "5-", "1e", "e5", "1,5"};
            f[rng.below(f.size())] = bad[rng.below(comma ? 11 : 12)];
          }
        for (size_t k = 0; k < f.size(); ++k)
          o << (k ? (comma ? ", " : (rng.chance(0.1) ? "   " : " ")) : "") << f[k];
        o << "\n";
        if (rng.chance(0.05))
          o << "\n";
        if (rng.chance(0.05))
          o << "# comment between rows\n";
        if (rng.chance(0.02) || (late_compositions && i == rows / 2))
          o << "# compositions = " << compositions << "\n"; // an option (repeated) after data rows
      }
    s.files[dat] = o.str();
    Op t;
    t.op = "tool";
    t.tool = "dat";
    t.argv = {"gwb-dat", wb, dat};
    if (rng.chance(0.5))
      t.argv.push_back("--limit-debug-consistency-checks");
    t.sched.strategy = S_SEQ;
    // file-layer faults on the data file
    if (frng.chance(0.35))
      {
        simfs::Fault f;
        f.path = dat;
        const long n = static_cast<long>(s.files[dat].size());
        const int k = static_cast<int>(frng.below(5));
        if (k == 0)
          {
            f.kind = simfs::F_TRUNCATE;
            f.a = frng.range(0, std::max(1L, n));
          }
        else if (k == 1)
          {
            f.kind = simfs::F_FLIP;
            f.a = frng.range(0, std::max(1L, n));
            f.b = 1L << frng.below(7);
          }
        else if (k == 2)
          {
            f.kind = simfs::F_SHORT_READ;
            f.a = frng.range(1, 64);
          }
        else if (k == 3)
          {
            f.kind = simfs::F_EINTR;
            f.a = frng.range(1, 3);
          }
        else
          {
            f.kind = simfs::F_EIO;
            f.a = frng.range(1, 3);
          }
        t.faults.push_back(f);
        if (f.kind == simfs::F_SHORT_READ || f.kind == simfs::F_EINTR)
          {
            // delivery in pieces must give the same table as one-shot delivery
            Op ref = t;
            ref.faults.clear();
            ref.eq = "delivery";
            t.eq = "delivery";
            s.ops.push_back(ref);
          }
      }
    t.note = malformed_mode ? "malformed" + std::to_string(malformed_mode) : "wellformed";
    s.ops.push_back(t);
    return true;
  }

  // ------------------------------------------------------------------ C18
  bool gen_c18(uint64_t seed, uint64_t run, const std::string &tier, Scenario &s)
  {
    const uint64_t rs = hash_mix(seed, run);
    Rng rng = stream(rs, "workload");
    Rng srng = stream(rs, "schedule");
    Rng frng = stream(rs, "faults");
    s.property = "C18";
    s.seed = seed;
    s.run = run;
    s.generator = "c18";
    std::string origin;
    WorldInfo w = pick_world(rng, rng.chance(0.4), false, origin);
    const std::string wb = "/simfs/model.wb", grid = "/simfs/model.grid";
    s.files[wb] = w.content;
    GridSpec g = random_grid(w, rng, tier == "thorough" ? 3000 : 1200, true);
    static const char *formats[] = {"base64inline", "base64inline", "base64inline", "ASCII", "ascii", "Base64Inline", "rawbinary", "base64appended", "rawbinarycompressed"};
    g.format = formats[rng.below(9)];
    s.files[grid] = grid_text(g, rng);
    const int N = rng.chance(0.4) ? 1 : static_cast<int>(rng.range(2, 40));
    Op t;
    t.op = "tool";
    t.tool = "grid";
    t.argv = {"gwb-grid", "-j", std::to_string(N)};
    // the appended writers of the vendored vtu11 take &data[0] of an empty vector when a by-tag file has no
    // cells (UBSan: reference binding to null, harmless); those formats are only used for the main file
    const bool appended = g.format != "ASCII" && g.format != "ascii" && g.format != "base64inline" && g.format != "Base64Inline";
    if (!appended && rng.chance(0.4))
      t.argv.push_back("--filtered");
    if (!appended && rng.chance(0.4))
      t.argv.push_back("--by-tag");
    if (rng.chance(0.1))
      {
        t.argv.push_back("--resolution-limit");
        t.argv.push_back(std::to_string(rng.range(1, 6)));
      }
    t.argv.push_back(wb);
    t.argv.push_back(grid);
    t.sched = N == 1 ? SchedParams() : random_sched(srng, N);
    if (frng.chance(0.25))
      {
        // short and interrupted writes must be absorbed by the stream layer
        simfs::Fault f;
        f.path = "";
        if (frng.chance(0.6))
          {
            f.kind = simfs::F_SHORT_WRITE;
            f.a = frng.range(1, 4096);
          }
        else
          {
            f.kind = simfs::F_EINTR;
            f.a = frng.range(1, 3);
          }
        Op ref = t;
        ref.eq = "faultfree";
        t.eq = "faultfree";
        t.faults.push_back(f);
        s.ops.push_back(ref);
      }
    s.ops.push_back(t);
    return true;
  }
}
