#include "simfs.h"
#include "simsched.h"

#include <cerrno>
#include <cstdio>
#include <cstring>
#include <dlfcn.h>
#include <fcntl.h>
#include <sys/mman.h>
#include <sys/stat.h>
#include <sys/syscall.h>
#include <sys/uio.h>
#include <unistd.h>

// The shared state of the simulated disk is touched by whichever simulated client does file I/O. Only one of them
// runs at any time (the scheduler hands a single token around), but ThreadSanitizer cannot know that, and it sees
// this file's memcpy/memcmp/new/delete calls through its libc interceptors. Its own annotations switch the
// reporting off for the duration of a file-layer call, without adding an ordering between the clients.
extern "C" {
  void AnnotateIgnoreReadsBegin(const char *, int) __attribute__((weak));
  void AnnotateIgnoreReadsEnd(const char *, int) __attribute__((weak));
  void AnnotateIgnoreWritesBegin(const char *, int) __attribute__((weak));
  void AnnotateIgnoreWritesEnd(const char *, int) __attribute__((weak));
}
namespace
{
  struct NoRace
  {
    NoRace()
    {
      if (AnnotateIgnoreReadsBegin && AnnotateIgnoreWritesBegin)
        {
          AnnotateIgnoreReadsBegin(__FILE__, __LINE__);
          AnnotateIgnoreWritesBegin(__FILE__, __LINE__);
        }
    }
    ~NoRace()
    {
      if (AnnotateIgnoreReadsEnd && AnnotateIgnoreWritesEnd)
        {
          AnnotateIgnoreWritesEnd(__FILE__, __LINE__);
          AnnotateIgnoreReadsEnd(__FILE__, __LINE__);
        }
    }
  };
}

namespace simfs
{
  namespace
  {
    struct OpenFile
    {
      std::string path;
      bool writing = false;
      size_t effect = 0;
      unsigned long nread = 0;
      unsigned long nwrite = 0;
      bool eio = false;
    };

    // plain structs with function-local statics so that they exist before any
    // static initialiser of the library runs
    std::map<std::string, std::string> &disk()
    {
      static std::map<std::string, std::string> *d = new std::map<std::string, std::string>();
      return *d;
    }
    std::map<int, OpenFile> &open_files()
    {
      static std::map<int, OpenFile> *d = new std::map<int, OpenFile>();
      return *d;
    }
    std::vector<Fault> &faults()
    {
      static std::vector<Fault> *d = new std::vector<Fault>();
      return *d;
    }
    std::vector<Effect> &effects_v()
    {
      static std::vector<Effect> *d = new std::vector<Effect>();
      return *d;
    }
    std::map<std::string, int> &open_count()
    {
      static std::map<std::string, int> *d = new std::map<std::string, int>();
      return *d;
    }
    unsigned long n_calls = 0;
    bool enabled = false;

    typedef FILE *(*fopen_t)(const char *, const char *);
    typedef int (*fclose_t)(FILE *);
    fopen_t real_fopen64()
    {
      static fopen_t f = reinterpret_cast<fopen_t>(dlsym(RTLD_NEXT, "fopen64"));
      return f;
    }
    fclose_t real_fclose()
    {
      static fclose_t f = reinterpret_cast<fclose_t>(dlsym(RTLD_NEXT, "fclose"));
      return f;
    }

    bool simulated_path(const char *path, bool writing)
    {
      if (!enabled || path == nullptr)
        return false;
      if (path[0] != '/')
        return true; // relative paths never touch the real disk
      if (std::strncmp(path, "/simfs/", 7) == 0)
        return true;
      (void) writing;
      return disk().count(path) != 0;
    }

    Fault *find_fault(int kind, const std::string &path)
    {
      for (auto &f : faults())
        if (f.kind == kind && (f.path.empty() || f.path == path))
          return &f;
      return nullptr;
    }
  }

  const char *fault_name(int kind)
  {
    static const char *names[] = {"TRUNCATE", "FLIP", "ZERO_BLOCK", "DUP_BLOCK", "SHORT_READ", "EINTR", "EIO", "OPEN_FAIL",
                                  "CHANGE_BETWEEN_OPENS", "SHORT_WRITE", "ENOSPC"
                                 };
    return (kind >= 0 && kind < F_NKINDS) ? names[kind] : "?";
  }

  int fault_kind(const std::string &name)
  {
    for (int k = 0; k < F_NKINDS; ++k)
      if (name == fault_name(k))
        return k;
    return -1;
  }

  void reset()
  {
    NoRace norace_;
    for (auto &o : open_files())
      syscall(SYS_close, o.first);
    open_files().clear();
    disk().clear();
    faults().clear();
    effects_v().clear();
    open_count().clear();
    enabled = true;
  }

  void put(const std::string &path, const std::string &bytes)
  {
    NoRace norace_;
    enabled = true;
    disk()[path] = bytes;
  }

  bool get(const std::string &path, std::string &bytes)
  {
    NoRace norace_;
    auto it = disk().find(path);
    if (it == disk().end())
      return false;
    bytes = it->second;
    return true;
  }

  bool exists(const std::string &path)
  {
    NoRace norace_;
    return disk().count(path) != 0;
  }

  std::vector<std::string> list()
  {
    NoRace norace_;
    std::vector<std::string> r;
    for (auto &e : disk())
      r.push_back(e.first);
    return r;
  }

  void set_faults(const std::vector<Fault> &f)
  {
    NoRace norace_;
    faults() = f;
    open_count().clear();
  }

  std::vector<Fault> take_faults()
  {
    NoRace norace_;
    std::vector<Fault> r;
    r.swap(faults());
    return r;
  }

  void clear_effects()
  {
    NoRace norace_;
    effects_v().clear();
  }

  std::vector<Effect> &effects()
  {
    return effects_v();
  }

  unsigned long calls()
  {
    NoRace norace_;
    return n_calls;
  }

  unsigned open_descriptors()
  {
    NoRace norace_;
    return static_cast<unsigned>(open_files().size());
  }

  std::string delivered_bytes(const std::string &path, const std::string &stored, const std::vector<Fault> &plan, int open_index)
  {
    std::string content = stored;
    if (open_index >= 1)
      for (const auto &f : plan)
        if (f.kind == F_CHANGE_BETWEEN_OPENS && (f.path.empty() || f.path == path))
          content = f.bytes;
    for (const auto &f : plan)
      {
        if (!(f.path.empty() || f.path == path))
          continue;
        const size_t n = content.size();
        switch (f.kind)
          {
            case F_TRUNCATE:
              if (static_cast<size_t>(f.a) < n)
                content.resize(static_cast<size_t>(f.a));
              break;
            case F_FLIP:
              if (n > 0)
                content[static_cast<size_t>(f.a) % n] = static_cast<char>(content[static_cast<size_t>(f.a) % n] ^ static_cast<char>(f.b ? f.b : 1));
              break;
            case F_ZERO_BLOCK:
              if (n > 0)
                {
                  const size_t off = static_cast<size_t>(f.a) % n;
                  for (size_t i = off; i < n && i < off + static_cast<size_t>(f.b); ++i)
                    content[i] = 0;
                }
              break;
            case F_DUP_BLOCK:
              if (n > 0)
                {
                  const size_t off = static_cast<size_t>(f.a) % n;
                  const size_t len = std::min(static_cast<size_t>(f.b), n - off);
                  content.insert(off + len, content.substr(off, len));
                }
              break;
            default:
              break;
          }
      }
    return content;
  }

  namespace
  {
    FILE *sim_open(const char *path_, const char *mode)
    {
      ++n_calls;
      const std::string path(path_);
      const bool writing = (mode[0] == 'w' || mode[0] == 'a' || std::strchr(mode, '+') != nullptr);
      sim::yield_point(sim::SITE_IO);
      Effect e;
      e.path = path;
      e.mode = writing ? 'w' : 'r';
      e.opened = false;
      e.closed = false;
      e.others_unfinished = sim::sched_active() && sim::unfinished_others() > 0;
      if (Fault *f = find_fault(F_OPEN_FAIL, path))
        {
          ++f->fired;
          effects_v().push_back(e);
          errno = static_cast<int>(f->a ? f->a : ENOENT);
          return nullptr;
        }
      std::string content;
      if (!writing)
        {
          auto it = disk().find(path);
          if (it == disk().end())
            {
              effects_v().push_back(e);
              errno = ENOENT;
              return nullptr;
            }
          const int idx = open_count()[path]++;
          // count the stored-corruption faults as fired
          for (auto &f : faults())
            if ((f.path.empty() || f.path == path) &&
                (f.kind == F_TRUNCATE || f.kind == F_FLIP || f.kind == F_ZERO_BLOCK || f.kind == F_DUP_BLOCK ||
                 (f.kind == F_CHANGE_BETWEEN_OPENS && idx >= 1)))
              ++f.fired;
          content = delivered_bytes(path, it->second, faults(), idx);
          e.bytes = content;
        }
      const int fd = static_cast<int>(syscall(SYS_memfd_create, "simfs", 0u));
      if (fd < 0)
        {
          effects_v().push_back(e);
          errno = EMFILE;
          return nullptr;
        }
      if (mode[0] == 'a')
        {
          auto it = disk().find(path);
          if (it != disk().end())
            content = it->second;
        }
      size_t off = 0;
      while (off < content.size())
        {
          const long w = syscall(SYS_write, fd, content.data() + off, content.size() - off);
          if (w <= 0)
            break;
          off += static_cast<size_t>(w);
        }
      if (mode[0] != 'a')
        syscall(SYS_lseek, fd, 0L, SEEK_SET);
      FILE *fp = fdopen(fd, mode);
      if (fp == nullptr)
        {
          syscall(SYS_close, fd);
          effects_v().push_back(e);
          return nullptr;
        }
      e.opened = true;
      OpenFile of;
      of.path = path;
      of.writing = writing;
      of.effect = effects_v().size();
      effects_v().push_back(e);
      open_files()[fd] = of;
      return fp;
    }
  }
}

using namespace simfs;

extern "C" FILE *fopen64(const char *path, const char *mode)
{
  NoRace norace_;
  if (simulated_path(path, mode && (mode[0] == 'w' || mode[0] == 'a')))
    return sim_open(path, mode);
  return real_fopen64()(path, mode);
}

extern "C" FILE *fopen(const char *path, const char *mode)
{
  NoRace norace_;
  if (simulated_path(path, mode && (mode[0] == 'w' || mode[0] == 'a')))
    return sim_open(path, mode);
  return real_fopen64()(path, mode);
}

extern "C" int fclose(FILE *fp)
{
  NoRace norace_;
  if (enabled && fp != nullptr)
    {
      const int fd = fileno(fp);
      auto it = open_files().find(fd);
      if (it != open_files().end())
        {
          ++n_calls;
          fflush(fp);
          OpenFile of = it->second;
          if (of.writing)
            {
              // commit the content to the simulated disk
              std::string content;
              char buf[65536];
              off_t off = 0;
              for (;;)
                {
                  const long r = syscall(SYS_pread64, fd, buf, sizeof(buf), off);
                  if (r <= 0)
                    break;
                  content.append(buf, static_cast<size_t>(r));
                  off += r;
                }
              disk()[of.path] = content;
              if (of.effect < effects_v().size())
                effects_v()[of.effect].bytes = content;
            }
          if (of.effect < effects_v().size())
            effects_v()[of.effect].closed = true;
          open_files().erase(fd);
        }
    }
  return real_fclose()(fp);
}

extern "C" ssize_t read(int fd, void *buf, size_t count)
{
  NoRace norace_;
  if (enabled)
    {
      auto it = open_files().find(fd);
      if (it != open_files().end())
        {
          ++n_calls;
          OpenFile &of = it->second;
          ++of.nread;
          if (Fault *f = find_fault(F_EIO, of.path))
            if (of.eio || of.nread >= static_cast<unsigned long>(f->a < 1 ? 1 : f->a))
              {
                of.eio = true;
                ++f->fired;
                errno = EIO;
                return -1;
              }
            else if (f->b > 0 && count > static_cast<size_t>(f->b))
              count = static_cast<size_t>(f->b); // the reads before the bad block deliver at most b bytes each
          if (Fault *f = find_fault(F_EINTR, of.path))
            if (of.nread == static_cast<unsigned long>(f->a < 1 ? 1 : f->a))
              {
                ++f->fired;
                errno = EINTR;
                return -1;
              }
          if (Fault *f = find_fault(F_SHORT_READ, of.path))
            {
              const size_t k = static_cast<size_t>(f->a < 1 ? 1 : f->a);
              if (count > k)
                {
                  count = k;
                  ++f->fired;
                }
            }
        }
    }
  return syscall(SYS_read, fd, buf, count);
}

namespace
{
  // returns -2 if the call should proceed with (possibly reduced) count
  long write_faults(int fd, size_t &count)
  {
    auto it = open_files().find(fd);
    if (it == open_files().end())
      return -2;
    ++n_calls;
    OpenFile &of = it->second;
    ++of.nwrite;
    if (Fault *f = find_fault(F_ENOSPC, of.path))
      if (of.nwrite >= static_cast<unsigned long>(f->a < 1 ? 1 : f->a))
        {
          ++f->fired;
          errno = ENOSPC;
          return -1;
        }
    if (Fault *f = find_fault(F_EINTR, of.path))
      if (of.nwrite == static_cast<unsigned long>(f->a < 1 ? 1 : f->a))
        {
          ++f->fired;
          errno = EINTR;
          return -1;
        }
    if (Fault *f = find_fault(F_SHORT_WRITE, of.path))
      {
        const size_t k = static_cast<size_t>(f->a < 1 ? 1 : f->a);
        if (count > k)
          {
            count = k;
            ++f->fired;
          }
      }
    return -2;
  }
}

extern "C" ssize_t write(int fd, const void *buf, size_t count)
{
  NoRace norace_;
  if (enabled)
    {
      const long r = write_faults(fd, count);
      if (r != -2)
        return r;
    }
  return syscall(SYS_write, fd, buf, count);
}

extern "C" ssize_t writev(int fd, const struct iovec *iov, int iovcnt)
{
  NoRace norace_;
  if (enabled && open_files().count(fd) != 0)
    {
      size_t total = 0;
      for (int i = 0; i < iovcnt; ++i)
        total += iov[i].iov_len;
      size_t count = total;
      const long r = write_faults(fd, count);
      if (r != -2)
        return r;
      if (count < total)
        {
          // short write: deliver only the first `count` bytes
          ssize_t done = 0;
          for (int i = 0; i < iovcnt && count > 0; ++i)
            {
              const size_t n = iov[i].iov_len < count ? iov[i].iov_len : count;
              const long w = syscall(SYS_write, fd, iov[i].iov_base, n);
              if (w < 0)
                return done > 0 ? done : -1;
              done += w;
              count -= static_cast<size_t>(w);
              if (static_cast<size_t>(w) < n)
                break;
            }
          return done;
        }
    }
  return syscall(SYS_writev, fd, iov, iovcnt);
}

// stat() of a simulated path: a regular file of the stored size with a fixed modification time (the simulated
// disk has no clock; a rewritten file keeps its mtime, like a file rewritten within the same second)
namespace
{
  typedef int (*stat_t)(const char *, struct stat *);
  int sim_stat(const char *path, struct stat *st)
  {
    auto it = disk().find(path);
    if (it == disk().end())
      {
        errno = ENOENT;
        return -1;
      }
    std::memset(st, 0, sizeof(*st));
    st->st_mode = S_IFREG | 0644;
    st->st_nlink = 1;
    st->st_size = static_cast<off_t>(it->second.size());
    st->st_blksize = 4096;
    st->st_blocks = static_cast<blkcnt_t>((it->second.size() + 511) / 512);
    st->st_mtime = 1700000000;
    st->st_ctime = 1700000000;
    st->st_atime = 1700000000;
    return 0;
  }
}

extern "C" int stat(const char *path, struct stat *st)
{
  NoRace norace_;
  if (simulated_path(path, false))
    return sim_stat(path, st);
  static stat_t real = reinterpret_cast<stat_t>(dlsym(RTLD_NEXT, "stat"));
  return real ? real(path, st) : -1;
}

extern "C" int stat64(const char *path, struct stat64 *st)
{
  NoRace norace_;
  if (simulated_path(path, false))
    return sim_stat(path, reinterpret_cast<struct stat *>(st)); // identical layout on x86-64
  typedef int (*stat64_t)(const char *, struct stat64 *);
  static stat64_t real = reinterpret_cast<stat64_t>(dlsym(RTLD_NEXT, "stat64"));
  return real ? real(path, st) : -1;
}
