#include "worlds.h"

#include "world_builder/world.h"
#include "rapidjson/document.h"

#include <algorithm>
#include <cmath>
#include <dirent.h>
#include <fcntl.h>
#include <unistd.h>
#include <fstream>
#include <sstream>

namespace sim
{
  // the harness's own files bypass the simulated file layer (plain descriptors)
  std::string read_file(const std::string &path)
  {
    std::string r;
    const int fd = ::open(path.c_str(), O_RDONLY);
    if (fd < 0)
      return r;
    char buf[65536];
    for (;;)
      {
        const ssize_t n = ::read(fd, buf, sizeof(buf));
        if (n <= 0)
          break;
        r.append(buf, static_cast<size_t>(n));
      }
    ::close(fd);
    return r;
  }

  bool write_file(const std::string &path, const std::string &content)
  {
    const int fd = ::open(path.c_str(), O_WRONLY | O_CREAT | O_TRUNC, 0644);
    if (fd < 0)
      return false;
    size_t off = 0;
    while (off < content.size())
      {
        const ssize_t n = ::write(fd, content.data() + off, content.size() - off);
        if (n <= 0)
          break;
        off += static_cast<size_t>(n);
      }
    ::close(fd);
    return off == content.size();
  }

  namespace
  {
    void walk(const rapidjson::Value &v, const std::string &key, WorldInfo &w, int depth)
    {
      if (depth > 40)
        return;
      if (v.IsObject())
        {
          for (auto &m : v.GetObject())
            {
              const std::string k = m.name.GetString();
              if (k == "model" && m.value.IsString())
                {
                  const std::string mv = m.value.GetString();
                  if (mv.find("random") != std::string::npos)
                    w.random = true;
                }
              if (k == "grains models" && m.value.IsArray() && m.value.Size() > 0)
                w.has_grains = true;
              if (k == "velocity models" && m.value.IsArray() && m.value.Size() > 0)
                w.has_velocity = true;
              if (k == "compositions" && m.value.IsArray())
                for (auto &c : m.value.GetArray())
                  if (c.IsInt())
                    w.max_comp = std::max(w.max_comp, c.GetInt());
              if ((k == "max depth" || k == "min depth") && m.value.IsNumber())
                {
                  const double d = m.value.GetDouble();
                  if (std::isfinite(d) && d >= 0 && d < 3e6 && w.depth_values.size() < 64)
                    w.depth_values.push_back(d);
                }
              if ((k == "max depth" || k == "min depth") && m.value.IsArray())
                for (auto &e : m.value.GetArray())
                  if (e.IsArray() && e.Size() >= 1 && e[0].IsNumber())
                    {
                      const double d = e[0].GetDouble();
                      if (std::isfinite(d) && d >= 0 && d < 3e6 && w.depth_values.size() < 64)
                        w.depth_values.push_back(d);
                      if (e.Size() >= 2 && e[1].IsArray())
                        for (auto &pnt : e[1].GetArray())
                          if (pnt.IsArray() && pnt.Size() == 2 && pnt[0].IsNumber() && pnt[1].IsNumber())
                            {
                              const double x = pnt[0].GetDouble(), y = pnt[1].GetDouble();
                              if (std::isfinite(x) && std::isfinite(y) && std::fabs(x) < 1e9 && std::fabs(y) < 1e9)
                                {
                                  w.surface_points.push_back({{x, y}});
                                  w.coords.push_back({{x, y}});
                                }
                            }
                    }
              if (k == "max depth" && m.value.IsNumber())
                {
                  const double d = m.value.GetDouble();
                  if (std::isfinite(d) && d > 0 && d < 3e6)
                    w.max_depth = std::max(w.max_depth, d);
                }
              if ((k == "coordinates" || k == "ridge coordinates" || k == "dip point") && m.value.IsArray())
                {
                  std::vector<const rapidjson::Value *> stack;
                  stack.push_back(&m.value);
                  while (!stack.empty())
                    {
                      const rapidjson::Value *a = stack.back();
                      stack.pop_back();
                      if (a->IsArray() && a->Size() == 2 && (*a)[0].IsNumber() && (*a)[1].IsNumber())
                        {
                          const double x = (*a)[0].GetDouble(), y = (*a)[1].GetDouble();
                          if (std::isfinite(x) && std::isfinite(y) && std::fabs(x) < 1e9 && std::fabs(y) < 1e9)
                            w.coords.push_back({{x, y}});
                        }
                      else if (a->IsArray())
                        for (auto &e : a->GetArray())
                          stack.push_back(&e);
                    }
                }
              walk(m.value, k, w, depth + 1);
            }
        }
      else if (v.IsArray())
        for (auto &e : v.GetArray())
          walk(e, key, w, depth + 1);
    }
  }

  WorldInfo analyse_world(const std::string &name, const std::string &content)
  {
    WorldInfo w;
    w.name = name;
    w.content = content;
    rapidjson::Document d;
    d.Parse<rapidjson::kParseCommentsFlag | rapidjson::kParseNanAndInfFlag | rapidjson::kParseIterativeFlag>(content.c_str(), content.size());
    if (d.HasParseError() || !d.IsObject())
      return w;
    w.parse_ok = true;
    if (d.HasMember("coordinate system") && d["coordinate system"].IsObject())
      {
        const auto &cs = d["coordinate system"];
        if (cs.HasMember("model") && cs["model"].IsString() && std::string(cs["model"].GetString()) == "spherical")
          w.spherical = true;
        if (cs.HasMember("radius") && cs["radius"].IsNumber())
          w.radius = cs["radius"].GetDouble();
      }
    if (d.HasMember("cross section") && d["cross section"].IsArray() && d["cross section"].Size() == 2)
      {
        const auto &cs = d["cross section"];
        bool ok = true;
        for (unsigned i = 0; i < 2; ++i)
          if (!(cs[i].IsArray() && cs[i].Size() == 2 && cs[i][0].IsNumber() && cs[i][1].IsNumber()))
            ok = false;
        if (ok)
          {
            w.has_cs = true;
            for (unsigned i = 0; i < 2; ++i)
              for (unsigned j = 0; j < 2; ++j)
                w.cs[i][j] = cs[i][j].GetDouble();
          }
      }
    if (d.HasMember("force surface temperature") && d["force surface temperature"].IsBool())
      w.force_surface_t = d["force surface temperature"].GetBool();
    if (d.HasMember("features") && d["features"].IsArray())
      {
        w.n_features = d["features"].Size();
        for (auto &f : d["features"].GetArray())
          if (f.IsObject())
            {
              if (f.HasMember("name") && f["name"].IsString())
                w.feature_names.push_back(f["name"].GetString());
              if (f.HasMember("model") && f["model"].IsString())
                w.feature_models.push_back(f["model"].GetString());
            }
      }
    walk(d, "", w, 0);
    if (!w.coords.empty())
      {
        w.xmin = w.xmax = w.coords[0][0];
        w.ymin = w.ymax = w.coords[0][1];
        for (auto &c : w.coords)
          {
            w.xmin = std::min(w.xmin, c[0]);
            w.xmax = std::max(w.xmax, c[0]);
            w.ymin = std::min(w.ymin, c[1]);
            w.ymax = std::max(w.ymax, c[1]);
          }
      }
    else if (w.spherical)
      {
        w.xmin = -30;
        w.xmax = 30;
        w.ymin = -30;
        w.ymax = 30;
      }
    else
      {
        w.xmin = -500e3;
        w.xmax = 500e3;
        w.ymin = -500e3;
        w.ymax = 500e3;
      }
    if (w.has_cs)
      for (int i = 0; i < 2; ++i)
        {
          w.xmin = std::min(w.xmin, w.cs[i][0]);
          w.xmax = std::max(w.xmax, w.cs[i][0]);
          w.ymin = std::min(w.ymin, w.cs[i][1]);
          w.ymax = std::max(w.ymax, w.cs[i][1]);
        }
    if (w.spherical)
      {
        w.xmin = std::max(w.xmin, -360.0);
        w.xmax = std::min(w.xmax, 360.0);
        w.ymin = std::max(w.ymin, -89.0);
        w.ymax = std::min(w.ymax, 89.0);
        if (!(w.radius > 1e3) || !std::isfinite(w.radius))
          w.radius = 6371000.0;
        w.max_depth = std::min(w.max_depth, 0.9 * w.radius);
      }
    if (w.xmax - w.xmin < 1e-9)
      {
        w.xmin -= w.spherical ? 5 : 100e3;
        w.xmax += w.spherical ? 5 : 100e3;
      }
    if (w.ymax - w.ymin < 1e-9)
      {
        w.ymin -= w.spherical ? 5 : 100e3;
        w.ymax += w.spherical ? 5 : 100e3;
      }
    return w;
  }

  const std::vector<WorldInfo> &corpus()
  {
    static std::vector<WorldInfo> *c = nullptr;
    if (c == nullptr)
      {
        c = new std::vector<WorldInfo>();
        const std::string dir = verif_dir() + "/corpus";
        std::vector<std::string> names;
        if (DIR *d = opendir(dir.c_str()))
          {
            while (dirent *e = readdir(d))
              {
                const std::string n = e->d_name;
                if (n.size() > 3 && n.substr(n.size() - 3) == ".wb")
                  names.push_back(n);
              }
            closedir(d);
          }
        std::sort(names.begin(), names.end());
        for (const auto &n : names)
          c->push_back(analyse_world(n, read_file(dir + "/" + n)));
      }
    return *c;
  }

  const std::vector<size_t> &corpus_buildable(bool allow_random, bool only_random)
  {
    // corpus/buildable.txt lists the corpus worlds the pinned library builds
    // (written once by `gwbsim corpus-check`); generation must not depend on the
    // behaviour of the library under test
    static std::vector<int> *state = nullptr; // 0 fails, 1 builds
    const auto &c = corpus();
    if (state == nullptr)
      {
        state = new std::vector<int>(c.size(), 0);
        const std::string list = read_file(verif_dir() + "/corpus/buildable.txt");
        std::istringstream is(list);
        std::string line;
        std::vector<std::string> names;
        while (std::getline(is, line))
          if (!line.empty())
            names.push_back(line);
        for (size_t i = 0; i < c.size(); ++i)
          (*state)[i] = (names.empty() ? c[i].parse_ok : std::find(names.begin(), names.end(), c[i].name) != names.end()) ? 1 : 0;
      }
    static std::vector<size_t> r[4];
    std::vector<size_t> &out = r[(allow_random ? 1 : 0) + (only_random ? 2 : 0)];
    if (out.empty())
      for (size_t i = 0; i < c.size(); ++i)
        if ((*state)[i] && (allow_random || !c[i].random) && (!only_random || c[i].random))
          out.push_back(i);
    return out;
  }

  void natural_to_query(const WorldInfo &w, double x, double y, double depth, double out[3])
  {
    if (w.spherical)
      {
        const double lon = x * M_PI / 180.0, lat = y * M_PI / 180.0;
        const double r = w.radius - depth;
        out[0] = r * std::cos(lat) * std::cos(lon);
        out[1] = r * std::cos(lat) * std::sin(lon);
        out[2] = r * std::sin(lat);
      }
    else
      {
        out[0] = x;
        out[1] = y;
        out[2] = -depth;
      }
  }

  ProbePoint probe_point(const WorldInfo &w, Rng &rng)
  {
    ProbePoint pp;
    const double ex = w.xmax - w.xmin, ey = w.ymax - w.ymin;
    double x, y;
    const double sel = rng.real();
    if (sel < 0.35 && !w.coords.empty())
      {
        const auto &c = w.coords[rng.below(w.coords.size())];
        const double j = rng.chance(0.3) ? 0.0 : 0.05;
        x = c[0] + j * ex * rng.real(-1, 1);
        y = c[1] + j * ey * rng.real(-1, 1);
      }
    else if (sel < 0.7 && w.coords.size() >= 2)
      {
        const auto &a = w.coords[rng.below(w.coords.size())];
        const auto &b = w.coords[rng.below(w.coords.size())];
        const auto &c = w.coords[rng.below(w.coords.size())];
        double u = rng.real(), v = rng.real();
        if (u + v > 1)
          {
            u = 1 - u;
            v = 1 - v;
          }
        x = a[0] + u * (b[0] - a[0]) + v * (c[0] - a[0]);
        y = a[1] + u * (b[1] - a[1]) + v * (c[1] - a[1]);
      }
    else
      {
        x = w.xmin + ex * rng.real(-0.5, 1.5);
        y = w.ymin + ey * rng.real(-0.5, 1.5);
      }
    if (w.spherical)
      {
        x = std::max(-359.0, std::min(359.0, x));
        y = std::max(-89.5, std::min(89.5, y));
      }
    bool on_edge = false;
    if (w.edge_world && rng.chance(0.5))
      {
        // exactly on the triangle edge of the depth surface, or a little to either side of it
        const double along = w.edge_lo + (w.edge_hi - w.edge_lo) * rng.real(0.02, 0.98);
        const double side = rng.chance(0.6) ? 0.0 : (w.edge_hi - w.edge_lo) * rng.real(-0.3, 0.3);
        x = w.edge_vertical ? w.edge_c + side : along;
        y = w.edge_vertical ? along : w.edge_c + side;
        on_edge = true;
      }
    else if (rng.chance(0.12) && w.coords.size() >= 2)
      {
        // exactly between two points named in the file (shared triangle edges, polygon edges)
        const auto &a = w.coords[rng.below(w.coords.size())];
        const auto &b = w.coords[rng.below(w.coords.size())];
        x = 0.5 * (a[0] + b[0]);
        y = 0.5 * (a[1] + b[1]);
      }
    double depth;
    const double ds = rng.real();
    if (ds < 0.15)
      depth = 0.0;
    else if (ds < 0.3 && !w.depth_values.empty())
      {
        // a depth the file names, exactly or one step next to it
        depth = w.depth_values[rng.below(w.depth_values.size())];
        const double sel2 = rng.real();
        if (sel2 < 0.25)
          depth = std::nextafter(depth, 0.0);
        else if (sel2 < 0.5)
          depth = std::nextafter(depth, 1e300);
        else if (sel2 < 0.6)
          depth *= 0.5;
      }
    else if (ds < 0.2)
      {
        // next to the surface, on either side of it
        static const double tiny[] = {1e-3, 1e-9, -1e-9, 5e-12, -3e-10, 2.2e-16, -2.2e-16, 1e-7};
        depth = tiny[rng.below(8)];
      }
    else if (ds < 0.6)
      depth = rng.real(0, 200e3);
    else
      depth = rng.real(0, w.max_depth * 1.2);
    if (on_edge && rng.chance(0.7))
      depth = w.edge_depth * rng.real(0.05, 0.95); // inside the plate: the linear model feels the local surface depth
    if (w.spherical)
      depth = std::min(depth, 0.95 * w.radius);
    pp.depth = depth;
    natural_to_query(w, x, y, depth, pp.p3);
    if (!w.spherical && rng.chance(0.2))
      pp.p3[2] = 800e3 - depth; // the vertical coordinate is free in Cartesian worlds
    pp.has2 = w.has_cs;
    // 2D point along the section (also generated for worlds without one: the call must then be refused)
    const double ax = w.cs[0][0], ay = w.cs[0][1], bx = w.cs[1][0], by = w.cs[1][1];
    double len = std::sqrt((bx - ax) * (bx - ax) + (by - ay) * (by - ay));
    if (!w.has_cs || !(len > 0))
      len = w.spherical ? 20.0 : 1000e3;
    const double t = rng.real(-0.2, 1.2);
    if (w.spherical)
      {
        const double theta = t * len * M_PI / 180.0;
        const double r = w.radius - depth;
        pp.p2[0] = r * std::cos(theta);
        pp.p2[1] = r * std::sin(theta);
      }
    else
      {
        pp.p2[0] = t * len;
        pp.p2[1] = -depth;
      }
    return pp;
  }

  std::vector<Prop> random_props(const WorldInfo &w, Rng &rng, int max_len, bool allow_invalid, bool allow_grains)
  {
    std::vector<Prop> props;
    const int n = static_cast<int>(rng.range(rng.chance(0.05) ? 0 : 1, max_len));
    static const unsigned ks[] = {0, 1, 1, 2, 2, 3, 7};
    for (int i = 0; i < n; ++i)
      {
        const double s = rng.real();
        if (allow_invalid && s < 0.01)
          props.push_back({{rng.chance(0.5) ? 0u : 9u, 0, 0}});
        else if (s < 0.3)
          props.push_back({{1, 0, 0}});
        else if (s < 0.55)
          props.push_back({{2, static_cast<unsigned>(rng.below(static_cast<uint64_t>(w.max_comp + 3))), 0}});
        else if (s < 0.7 && allow_grains)
          props.push_back({{3, static_cast<unsigned>(rng.below(static_cast<uint64_t>(w.max_comp + 2))), ks[rng.below(7)]}});
        else if (s < 0.85)
          props.push_back({{4, 0, 0}});
        else
          props.push_back({{5, 0, 0}});
      }
    return props;
  }
}
