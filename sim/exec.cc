// Executes a scenario against the real library and evaluates the oracles.
#include "sim.h"

#include "world_builder/world.h"
#include "world_builder/wrapper_c.h"
#include "world_builder/wrapper_cpp.h"
#include "world_builder/grains.h"
#include "world_builder/objects/distance_from_surface.h"

#include "rapidjson/document.h"

#include <cfenv>
#include <clocale>
#include <cmath>
#include <cstring>
#include <iostream>
#include <memory>
#include <random>
#include <sstream>

namespace sim
{
  namespace
  {
    struct Handle
    {
      bool alive = false;
      std::string kind;
      WorldBuilder::World *native = nullptr;
      void *c = nullptr;
      wrapper_cpp::WorldBuilderWrapper *cpp = nullptr;
      std::string file;
      unsigned long seed = 1;
      std::mt19937 model;
      bool model_valid = false;
    };

    typedef std::vector<Handle> Handles;

    size_t expected_len(const std::vector<Prop> &props, bool &valid)
    {
      size_t n = 0;
      valid = true;
      for (const auto &p : props)
        switch (p[0])
          {
            case 1:
            case 2:
            case 4:
              n += 1;
              break;
            case 3:
              n += static_cast<size_t>(p[2]) * 10;
              break;
            case 5:
              n += 3;
              break;
            default:
              valid = false;
          }
      return n;
    }

    size_t block_len(const Prop &p)
    {
      switch (p[0])
        {
          case 3:
            return static_cast<size_t>(p[2]) * 10;
          case 5:
            return 3;
          default:
            return 1;
        }
    }

    WorldBuilder::World *world_of(const Handle &h)
    {
      if (h.kind == "native")
        return h.native;
      if (h.kind == "c")
        return reinterpret_cast<WorldBuilder::World *>(h.c);
      return nullptr;
    }

    long file_seed(const std::string &content)
    {
      rapidjson::Document d;
      d.Parse<rapidjson::kParseCommentsFlag | rapidjson::kParseNanAndInfFlag | rapidjson::kParseIterativeFlag>(content.c_str(), content.size());
      if (d.HasParseError() || !d.IsObject())
        return -2;
      if (d.HasMember("random number seed") && d["random number seed"].IsInt())
        return d["random number seed"].GetInt();
      return -1;
    }

    // a query through whichever kind of handle; fills r.v or throws
    void do_query(const Op &op, Handle &h, Resp &r)
    {
      const bool two = (op.op == "q2");
      const std::array<double, 2> p2 = {{op.p[0], op.p[1]}};
      const std::array<double, 3> p3 = {{op.p[0], op.p[1], op.p[2]}};
      const std::string &via = op.via;
      if (via == "properties")
        {
          if (h.kind == "native")
            r.v = two ? h.native->properties(p2, op.d, op.props) : h.native->properties(p3, op.d, op.props);
          else if (h.kind == "c")
            {
              const unsigned int n = static_cast<unsigned int>(op.props.size());
              std::unique_ptr<unsigned int[][3]> arr(new unsigned int[n ? n : 1][3]);
              for (unsigned int i = 0; i < n; ++i)
                for (int k = 0; k < 3; ++k)
                  arr[i][k] = op.props[i][k];
              const unsigned int sz = properties_output_size(h.c, arr.get(), n);
              // exactly the announced number of doubles, so that ASan sees any overrun
              std::unique_ptr<double[]> out(new double[sz]);
              if (two)
                properties_2d(h.c, op.p[0], op.p[1], op.d, arr.get(), n, out.get());
              else
                properties_3d(h.c, op.p[0], op.p[1], op.p[2], op.d, arr.get(), n, out.get());
              r.v.assign(out.get(), out.get() + sz);
            }
          else
            {
              r.status = 3;
              return;
            }
        }
      else if (via == "temperature" || via == "temperature_g")
        {
          double t = 0;
          if (h.kind == "native")
            {
#pragma GCC diagnostic push
#pragma GCC diagnostic ignored "-Wdeprecated-declarations"
              if (via == "temperature_g")
                t = two ? h.native->temperature(p2, op.d, 9.81) : h.native->temperature(p3, op.d, 9.81);
              else
                t = two ? h.native->temperature(p2, op.d) : h.native->temperature(p3, op.d);
#pragma GCC diagnostic pop
            }
          else if (h.kind == "c")
            {
              if (two)
                temperature_2d(h.c, op.p[0], op.p[1], op.d, &t);
              else
                temperature_3d(h.c, op.p[0], op.p[1], op.p[2], op.d, &t);
            }
          else
            {
              if (via == "temperature_g")
                t = two ? h.cpp->temperature_2d(op.p[0], op.p[1], op.d, 9.81) : h.cpp->temperature_3d(op.p[0], op.p[1], op.p[2], op.d, 9.81);
              else
                t = two ? h.cpp->temperature_2d(op.p[0], op.p[1], op.d) : h.cpp->temperature_3d(op.p[0], op.p[1], op.p[2], op.d);
            }
          r.v.assign(1, t);
        }
      else if (via == "composition")
        {
          const unsigned int n = op.props.empty() ? 0 : op.props[0][1];
          double c = 0;
          if (h.kind == "native")
            c = two ? h.native->composition(p2, op.d, n) : h.native->composition(p3, op.d, n);
          else if (h.kind == "c")
            {
              if (two)
                composition_2d(h.c, op.p[0], op.p[1], op.d, n, &c);
              else
                composition_3d(h.c, op.p[0], op.p[1], op.p[2], op.d, n, &c);
            }
          else
            c = two ? h.cpp->composition_2d(op.p[0], op.p[1], op.d, n) : h.cpp->composition_3d(op.p[0], op.p[1], op.p[2], op.d, n);
          r.v.assign(1, c);
        }
      else if (via == "grains")
        {
          if (h.kind != "native" || op.props.empty())
            {
              r.status = 3;
              return;
            }
          const unsigned int comp = op.props[0][1];
          const size_t n = op.props[0][2];
          const WorldBuilder::grains g = two ? h.native->grains(p2, op.d, comp, n) : h.native->grains(p3, op.d, comp, n);
          r.v.assign(n * 10, 0.0);
          if (g.sizes.size() == n && g.rotation_matrices.size() == n)
            g.unroll_into(r.v, 0);
          else
            r.v.assign(g.sizes.size() * 10 + 1, -12345.0); // wrong shape, will fail the length check
        }
      else
        {
          r.status = 3;
          return;
        }
      r.status = 0;
    }

    void collect_effects(Resp &r)
    {
      for (const auto &e : simfs::effects())
        {
          FileEffect f;
          f.path = e.path;
          f.mode = e.mode;
          f.opened = e.opened;
          f.closed = e.closed;
          f.others_unfinished = e.others_unfinished;
          f.bytes_hash = fnv_s(e.bytes);
          f.size = e.bytes.size();
          r.fx.push_back(f);
        }
    }

    void reset_streams()
    {
      static const std::ios pristine(nullptr);
      std::cout.copyfmt(pristine);
      std::cerr.copyfmt(pristine);
      std::cout.clear();
      std::cerr.clear();
      std::setlocale(LC_ALL, "C");
      std::fesetenv(FE_DFL_ENV);
    }

    // one operation; `shared` is false for operations run by concurrent clients,
    // which must not touch process-wide harness state
    void run_op(const Scenario &s, const Op &op, Handles &handles, Resp &r, bool shared)
    {
      r = Resp();
      r.status = 3;
      Handle *h = (op.h >= 0 && static_cast<size_t>(op.h) < handles.size()) ? &handles[static_cast<size_t>(op.h)] : nullptr;
      const unsigned tsan_before = tsan_report_count();
      if (shared)
        {
          simfs::set_faults(op.faults);
          simfs::clear_effects();
          set_shortcut_mask(op.mask);
        }
      try
        {
          if (op.op == "create")
            {
              if (h == nullptr || (!shared && op.note != "own"))
                return; // client threads may only create and destroy handles that no other thread touches
              if (h->alive)
                return; // slot in use: interpreted as a no-op
              Handle nh;
              nh.kind = op.kind;
              nh.file = op.file;
              nh.seed = op.seed;
              const bool hod = op.has_outdir == 1;
              const std::string od = op.outdir_null ? std::string() : op.outdir;
              if (op.alloc_fail)
                alloc_arm(op.alloc_fail);
              if (op.kind == "native")
                nh.native = new WorldBuilder::World(op.file, hod, od, op.seed);
              else if (op.kind == "c")
                {
                  const bool b = hod;
                  create_world(&nh.c, op.file.c_str(), op.has_outdir < 0 ? nullptr : &b,
                               op.outdir_null ? nullptr : op.outdir.c_str(), op.seed);
                }
              else if (op.kind == "cpp")
                nh.cpp = new wrapper_cpp::WorldBuilderWrapper(op.file, hod, od, op.seed);
              else
                return;
              alloc_disarm();
              nh.alive = true;
              if (s.engine_model && world_of(nh) != nullptr)
                {
                  auto it = s.files.find(op.file);
                  const long fs = it == s.files.end() ? -2 : file_seed(it->second);
                  if (fs >= 0)
                    nh.model.seed(static_cast<unsigned int>(fs));
                  else
                    nh.model = std::mt19937(op.seed);
                  nh.model_valid = (fs != -2);
                  r.engine_checked = nh.model_valid;
                  r.engine_ok = !nh.model_valid || (nh.model == world_of(nh)->get_random_number_engine());
                }
              *h = nh;
              r.status = 0;
            }
          else if (op.op == "put")
            {
              // the file is rewritten between two operations (same path, other content)
              if (!shared)
                return;
              auto it = s.files.find(op.name);
              simfs::put(op.file, it == s.files.end() ? std::string() : it->second);
              r.status = 0;
            }
          else if (op.op == "destroy")
            {
              if (h == nullptr || !h->alive || (!shared && op.note != "own"))
                return;
              if (h->kind == "native")
                delete h->native;
              else if (h->kind == "c")
                release_world(h->c);
              else
                delete h->cpp;
              *h = Handle();
              r.status = 0;
            }
          else if (op.op == "q3" || op.op == "q2")
            {
              if (h == nullptr || !h->alive)
                return;
              if (shared && op.alloc_fail)
                alloc_arm(op.alloc_fail);
              do_query(op, *h, r);
              if (shared)
                alloc_disarm();
            }
          else if (op.op == "size")
            {
              if (h == nullptr || !h->alive)
                return;
              unsigned int n = 0;
              if (h->kind == "native")
                n = h->native->properties_output_size(op.props);
              else if (h->kind == "c")
                {
                  const unsigned int np = static_cast<unsigned int>(op.props.size());
                  std::unique_ptr<unsigned int[][3]> arr(new unsigned int[np ? np : 1][3]);
                  for (unsigned int i = 0; i < np; ++i)
                    for (int k = 0; k < 3; ++k)
                      arr[i][k] = op.props[i][k];
                  n = properties_output_size(h->c, arr.get(), np);
                }
              else
                return;
              r.v.assign(1, static_cast<double>(n));
              r.status = 0;
            }
          else if (op.op == "dist")
            {
              if (h == nullptr || !h->alive || h->kind != "native")
                return;
              const std::array<double, 3> p3 = {{op.p[0], op.p[1], op.p[2]}};
              const WorldBuilder::Objects::PlaneDistances pd = h->native->distance_to_plane(p3, op.d, op.name);
              r.v = {pd.get_distance_from_surface(), pd.get_distance_along_surface()};
              r.status = 0;
            }
          else if (op.op == "tool")
            {
              if (!shared)
                return;
              std::ostringstream out, err;
              std::streambuf *old_out = std::cout.rdbuf(out.rdbuf());
              std::streambuf *old_err = std::cerr.rdbuf(err.rdbuf());
              SchedParams sp = op.sched;
              sp.script = op.script.empty() ? nullptr : op.script.data();
              sp.script_n = op.script.size() / 2;
              grid_reset_counters();
              sched_begin(sp);
              try
                {
                  r.rc = (op.tool == "grid") ? run_gwb_grid(op.argv) : run_gwb_dat(op.argv);
                  r.status = 0;
                }
              catch (std::exception &e)
                {
                  r.status = 1;
                  r.what = e.what();
                }
              catch (...)
                {
                  r.status = 2;
                }
              r.sched = sched_end();
              if (r.sched.dev != nullptr && !r.sched.dev_overflow)
                r.sched_dev.assign(r.sched.dev, r.sched.dev + 2 * std::min<uint32_t>(r.sched.n_dev, 20000));
              r.threads_created = grid_threads_created();
              r.would_terminate = grid_would_terminate();
              r.worker_exceptions = grid_worker_exceptions();
              std::cout.rdbuf(old_out);
              std::cerr.rdbuf(old_err);
              r.out = out.str();
              r.err = err.str();
              for (const auto &e : simfs::effects())
                if (e.mode == 'w' && e.closed)
                  r.written[e.path] = e.bytes;
              reset_streams();
            }
        }
      catch (std::exception &e)
        {
          if (shared)
            alloc_disarm(); // the harness itself must not be hit by the injected fault
          r.status = 1;
          r.what = e.what();
        }
      catch (...)
        {
          if (shared)
            alloc_disarm();
          r.status = 2;
        }
      if (shared)
        {
          r.alloc_count = alloc_count();
          r.alloc_fired = alloc_fired() && op.alloc_fail != 0;
          alloc_disarm();
          collect_effects(r);
          r.faults = simfs::take_faults();
          set_shortcut_mask(0);
          // engine model
          if (s.engine_model && h != nullptr && h->alive && op.op != "create" && world_of(*h) != nullptr)
            {
              std::mt19937 &eng = world_of(*h)->get_random_number_engine();
              if (h->model_valid && op.draws >= 0 && r.status == 0)
                {
                  h->model.discard(static_cast<unsigned long long>(op.draws));
                  r.engine_checked = true;
                  r.engine_ok = (h->model == eng);
                }
              h->model = eng;
              h->model_valid = true;
            }
        }
      r.tsan_reports = tsan_report_count() - tsan_before;
    }

    struct ThreadArg
    {
      const Scenario *s;
      const std::vector<Op> *ops;
      std::vector<Resp> *resp;
      Handles *handles;
    };

    void thread_main(void *p)
    {
      ThreadArg *a = static_cast<ThreadArg *>(p);
      for (size_t i = 0; i < a->ops->size(); ++i)
        {
          yield_point(SITE_OP);
          const Op &op = (*a->ops)[i];
          if (op.op == "q3" || op.op == "q2" || op.op == "size" || op.op == "dist" || ((op.op == "create" || op.op == "destroy") && op.note == "own"))
            run_op(*a->s, op, *a->handles, (*a->resp)[i], false);
        }
    }

    uint64_t hash_resp(const Resp &r, uint64_t h)
    {
      h = fnv(&r.status, sizeof(r.status), h);
      if (!r.v.empty())
        h = fnv(r.v.data(), r.v.size() * sizeof(double), h);
      h = fnv_s(r.what, h);
      h = fnv_s(r.out, h);
      h = fnv(&r.rc, sizeof(r.rc), h);
      for (const auto &e : r.fx)
        {
          h = fnv_s(e.path, h);
          h = fnv(&e.bytes_hash, sizeof(e.bytes_hash), h);
          h = fnv(&e.opened, 1, h);
        }
      for (const auto &f : r.faults)
        h = fnv(&f.fired, sizeof(f.fired), h);
      // Forced decision points are counted in control-flow edges, and a process that has run the library before
      // executes a few edges fewer (function-local statics are initialised once): the decisions of such a run are
      // reproducible from a fresh process (replay, gate), but not between the first and a later execution inside
      // one process. Its responses have to be, so they alone make up the event-log hash.
      if (!r.sched.preempt_on)
        h = fnv(&r.sched.trace_hash, sizeof(uint64_t), h);
      h = fnv(&r.engine_ok, 1, h);
      return h;
    }

    bool bits_equal(double a, double b)
    {
      return std::memcmp(&a, &b, sizeof(double)) == 0 || (std::isnan(a) && std::isnan(b));
    }

    std::string fmt_vec(const std::vector<double> &v, size_t from, size_t n)
    {
      std::ostringstream o;
      o.precision(17);
      o << "[";
      for (size_t i = from; i < v.size() && i < from + n && i < from + 12; ++i)
        o << (i > from ? "," : "") << v[i];
      if (n > 12)
        o << ",...";
      o << "]";
      return o.str();
    }

    std::string fmt_props(const std::vector<Prop> &p)
    {
      std::ostringstream o;
      o << "[";
      for (size_t i = 0; i < p.size(); ++i)
        o << (i ? "," : "") << "(" << p[i][0] << "," << p[i][1] << "," << p[i][2] << ")";
      o << "]";
      return o.str();
    }

    // ---------------------------------------------------------------- stateless oracle
    struct RefKey
    {
      int dim;
      uint64_t p[3];
      uint64_t d;
      Prop prop;
      bool operator<(const RefKey &o) const
      {
        if (dim != o.dim) return dim < o.dim;
        for (int i = 0; i < 3; ++i)
          if (p[i] != o.p[i]) return p[i] < o.p[i];
        if (d != o.d) return d < o.d;
        return prop < o.prop;
      }
    };

    struct RefVal
    {
      bool threw = false;
      std::vector<double> v;
    };

    RefKey make_key(const Op &op, const Prop &prop)
    {
      RefKey k;
      k.dim = op.op == "q2" ? 2 : 3;
      for (int i = 0; i < 3; ++i)
        {
          const double x = (k.dim == 2 && i == 2) ? 0.0 : op.p[i];
          std::memcpy(&k.p[i], &x, 8);
        }
      std::memcpy(&k.d, &op.d, 8);
      k.prop = prop;
      return k;
    }

    RefVal ref_query(WorldBuilder::World &w, const RefKey &k)
    {
      RefVal r;
      double p[3], d;
      for (int i = 0; i < 3; ++i)
        std::memcpy(&p[i], &k.p[i], 8);
      std::memcpy(&d, &k.d, 8);
      try
        {
          const std::vector<Prop> one(1, k.prop);
          if (k.dim == 2)
            r.v = w.properties(std::array<double, 2> {{p[0], p[1]}}, d, one);
          else
            r.v = w.properties(std::array<double, 3> {{p[0], p[1], p[2]}}, d, one);
        }
      catch (std::exception &)
        {
          r.threw = true;
        }
      return r;
    }

    // props a query op effectively asks for
    std::vector<Prop> effective_props(const Op &op)
    {
      if (op.via == "properties")
        return op.props;
      if (op.via == "temperature" || op.via == "temperature_g")
        return {Prop{{1, 0, 0}}};
      if (op.via == "composition")
        return {Prop{{2, op.props.empty() ? 0u : op.props[0][1], 0}}};
      if (op.via == "grains")
        return {Prop{{3, op.props.empty() ? 0u : op.props[0][1], op.props.empty() ? 0u : op.props[0][2]}}};
      return {};
    }

    struct OpRef
    {
      const Op *op;
      const Resp *resp;
      int index;
      int thread;
      std::string file;
    };

    // distance_to_plane answers against a fresh world asked the same question alone: the entry point has no
    // memory either, whoever else asks for whichever feature at the same time
    void distance_oracle(const Scenario &s, const std::vector<OpRef> &all, RunResult &res)
    {
      std::map<std::string, std::vector<const OpRef *>> by_file;
      for (const auto &q : all)
        if (q.op->op == "dist" && (q.resp->status == 0 || q.resp->status == 1) && !q.op->noref && !q.file.empty())
          by_file[q.file].push_back(&q);
      for (auto &bf : by_file)
        {
          try
            {
              simfs::set_faults({});
              WorldBuilder::World ref(bf.first);
              for (const OpRef *q : bf.second)
                {
                  std::vector<double> want;
                  bool threw = false;
                  try
                    {
                      const std::array<double, 3> p3 = {{q->op->p[0], q->op->p[1], q->op->p[2]}};
                      const WorldBuilder::Objects::PlaneDistances pd = ref.distance_to_plane(p3, q->op->d, q->op->name);
                      want = {pd.get_distance_from_surface(), pd.get_distance_along_surface()};
                    }
                  catch (std::exception &)
                    {
                      threw = true;
                    }
                  res.counters["evaluations"]++;
                  res.counters["distance_answers_compared"]++;
                  bool same = threw == (q->resp->status == 1) && (threw || want.size() == q->resp->v.size());
                  for (size_t j = 0; same && !threw && j < want.size(); ++j)
                    same = bits_equal(want[j], q->resp->v[j]);
                  if (!same)
                    {
                      Violation v;
                      v.cls = s.property + "/distance-mismatch";
                      std::ostringstream o;
                      o.precision(17);
                      o << "op " << q->index << (q->thread >= 0 ? " of thread " + std::to_string(q->thread) : std::string()) << " distance_to_plane('" << q->op->name
                        << "') = " << (q->resp->status == 1 ? std::string("exception") : fmt_vec(q->resp->v, 0, q->resp->v.size()))
                        << " but a fresh world asked alone says " << (threw ? std::string("exception") : fmt_vec(want, 0, want.size()));
                      v.detail = o.str();
                      v.site = "dist";
                      v.op_index = q->index;
                      res.violations.push_back(v);
                      break;
                    }
                }
            }
          catch (std::exception &)
            {
              res.counters["oracle_ref_unbuildable"]++;
            }
        }
    }

    void stateless_oracle(const Scenario &s, const std::vector<OpRef> &queries, RunResult &res)
    {
      const std::string P = s.property;
      std::map<std::string, std::vector<const OpRef *>> by_file;
      for (const auto &q : queries)
        if ((q.resp->status == 0 || q.resp->status == 1) && !q.op->noref)
          by_file[q.file].push_back(&q);
      for (auto &bf : by_file)
        {
          // the tuples needed, in order of first appearance
          std::vector<RefKey> keys;
          std::map<RefKey, size_t> index;
          for (const OpRef *q : bf.second)
            for (const auto &prop : effective_props(*q->op))
              {
                const RefKey k = make_key(*q->op, prop);
                if (!index.count(k))
                  {
                    index[k] = keys.size();
                    keys.push_back(k);
                  }
              }
          std::vector<RefVal> fwd(keys.size()), bwd(keys.size());
          try
            {
              simfs::set_faults({});
              WorldBuilder::World ref1(bf.first);
              for (size_t i = 0; i < keys.size(); ++i)
                fwd[i] = ref_query(ref1, keys[i]);
              WorldBuilder::World ref2(bf.first);
              for (size_t i = keys.size(); i-- > 0;)
                bwd[i] = ref_query(ref2, keys[i]);
            }
          catch (std::exception &)
            {
              res.counters["oracle_ref_unbuildable"]++;
              continue;
            }
          bool stable = true;
          for (size_t i = 0; i < keys.size() && stable; ++i)
            {
              if (fwd[i].threw != bwd[i].threw || fwd[i].v.size() != bwd[i].v.size())
                stable = false;
              for (size_t j = 0; stable && j < fwd[i].v.size(); ++j)
                if (!bits_equal(fwd[i].v[j], bwd[i].v[j]))
                  stable = false;
              if (!stable)
                {
                  Violation v;
                  v.cls = P + "/history";
                  v.detail = "stand-alone single-property answers of two fresh worlds differ between forward and reverse query order (file " + bf.first + ")";
                  v.site = "reference-order";
                  res.violations.push_back(v);
                }
            }
          if (!stable)
            continue;
          for (const OpRef *q : bf.second)
            {
              const std::vector<Prop> props = effective_props(*q->op);
              res.counters["evaluations"]++;
              bool any_threw = false;
              size_t total = 0;
              for (const auto &prop : props)
                {
                  const RefVal &rv = fwd[index[make_key(*q->op, prop)]];
                  any_threw = any_threw || rv.threw;
                  total += rv.v.size();
                }
              std::ostringstream where;
              where << "op " << q->index << (q->thread >= 0 ? " thread " + std::to_string(q->thread) : std::string())
                    << " " << q->op->op << " via " << q->op->via << " props " << fmt_props(props) << " file " << q->file;
              if (q->resp->alloc_fired)
                {
                  res.counters["alloc_fault_ops"]++;
                  continue; // an injected allocation failure may legitimately end in an exception
                }
              if (props.empty())
                continue; // nothing to compare; whether an empty request is refused is the entry point's business
              if (any_threw != (q->resp->status == 1))
                {
                  Violation v;
                  v.cls = P + "/throw-mismatch";
                  v.detail = where.str() + (any_threw ? ": a stand-alone component throws but the request returned" : ": the request threw (" + q->resp->what.substr(0, 200) + ") but every stand-alone component returns");
                  v.site = "throw-mismatch";
                  v.op_index = q->index;
                  res.violations.push_back(v);
                  continue;
                }
              if (any_threw)
                {
                  res.counters["throwing_requests"]++;
                  continue;
                }
              if (q->resp->v.size() != total)
                {
                  Violation v;
                  v.cls = P + "/length";
                  v.detail = where.str() + ": returned " + std::to_string(q->resp->v.size()) + " values, stand-alone answers have " + std::to_string(total);
                  v.site = "length";
                  v.op_index = q->index;
                  res.violations.push_back(v);
                  continue;
                }
              size_t off = 0;
              for (size_t ip = 0; ip < props.size(); ++ip)
                {
                  const RefVal &rv = fwd[index[make_key(*q->op, props[ip])]];
                  bool same = true;
                  for (size_t j = 0; j < rv.v.size(); ++j)
                    if (!bits_equal(rv.v[j], q->resp->v[off + j]))
                      same = false;
                  if (!same)
                    {
                      Violation v;
                      v.cls = P + "/block-mismatch";
                      std::ostringstream o;
                      o << where.str() << ": block " << ip << " (property " << props[ip][0] << "," << props[ip][1] << "," << props[ip][2]
                        << ") = " << fmt_vec(q->resp->v, off, rv.v.size()) << " but stand-alone = " << fmt_vec(rv.v, 0, rv.v.size());
                      v.detail = o.str();
                      // signature: which kind of block, which dimension, position in request
                      std::ostringstream sg;
                      sg << "dim" << (q->op->op == "q2" ? 2 : 3) << ":prop" << props[ip][0] << (props.size() == 1 ? ":single" : ":batched");
                      v.site = sg.str();
                      v.op_index = q->index;
                      res.violations.push_back(v);
                      break;
                    }
                  off += rv.v.size();
                }
            }
        }
    }

    // ---------------------------------------------------------------- grain / composition validity
    void validity_checks(const Scenario &s, const Op &op, const Resp &r, int index, RunResult &res)
    {
      if (r.status != 0 || op.via != "properties")
        return;
      bool valid;
      if (expected_len(op.props, valid) != r.v.size() || !valid)
        return;
      size_t off = 0;
      for (const auto &p : op.props)
        {
          if (p[0] == 3 && op.gc.on)
            {
              const size_t k = p[2];
              bool all_zero = true;
              for (size_t i = 0; i < 10 * k; ++i)
                if (r.v[off + i] != 0.0)
                  all_zero = false;
              if (k > 0 && all_zero && !op.gc.inside)
                res.counters["grains_outside"]++;
              else if (k > 0)
                {
                  res.counters["grain_sets_checked"]++;
                  double sum = 0;
                  for (size_t g = 0; g < k; ++g)
                    {
                      sum += r.v[off + g];
                      const double *R = &r.v[off + k + 9 * g];
                      double maxerr = 0;
                      for (int a = 0; a < 3; ++a)
                        for (int b = 0; b < 3; ++b)
                          {
                            double dot = 0;
                            for (int c = 0; c < 3; ++c)
                              dot += R[3 * c + a] * R[3 * c + b];
                            maxerr = std::max(maxerr, std::fabs(dot - (a == b ? 1.0 : 0.0)));
                          }
                      const double det = R[0] * (R[4] * R[8] - R[5] * R[7]) - R[1] * (R[3] * R[8] - R[5] * R[6]) + R[2] * (R[3] * R[7] - R[4] * R[6]);
                      if (op.gc.rot && (!(maxerr <= 1e-12) || !(std::fabs(det - 1.0) <= 1e-12)))
                        {
                          Violation v;
                          v.cls = s.property + "/rotation";
                          std::ostringstream o;
                          o.precision(17);
                          o << "op " << index << " grain " << g << " of " << k << ": |R^T R - I| = " << maxerr << ", det = " << det << " R=" << fmt_vec(r.v, off + k + 9 * g, 9);
                          v.detail = o.str();
                          v.site = "rotation";
                          v.op_index = index;
                          res.violations.push_back(v);
                          break;
                        }
                      if (op.gc.fixed && !op.gc.sizes.empty())
                        {
                          const double want = op.gc.sizes[g < op.gc.sizes.size() ? g : op.gc.sizes.size() - 1];
                          if (!bits_equal(want, r.v[off + g]))
                            {
                              Violation v;
                              v.cls = s.property + "/fixed-size";
                              std::ostringstream o;
                              o.precision(17);
                              o << "op " << index << " grain " << g << ": size " << r.v[off + g] << " but the file fixes it to " << want;
                              v.detail = o.str();
                              v.site = "fixed-size";
                              v.op_index = index;
                              res.violations.push_back(v);
                              break;
                            }
                        }
                    }
                  if (op.gc.sum1 && !(std::fabs(sum - 1.0) <= 1e-12))
                    {
                      Violation v;
                      v.cls = s.property + "/normalise";
                      std::ostringstream o;
                      o.precision(17);
                      o << "op " << index << ": " << k << " normalised grain sizes sum to " << sum;
                      v.detail = o.str();
                      v.site = "normalise";
                      v.op_index = index;
                      res.violations.push_back(v);
                    }
                }
            }
          if (p[0] == 2 && op.comp_check)
            {
              const double c = r.v[off];
              res.counters["random_compositions_checked"]++;
              if (!(c == 0.0 || (c >= op.comp_lo && c <= op.comp_hi)))
                {
                  Violation v;
                  v.cls = s.property + "/composition-bounds";
                  std::ostringstream o;
                  o.precision(17);
                  o << "op " << index << ": random composition " << c << " outside [" << op.comp_lo << "," << op.comp_hi << "]";
                  v.detail = o.str();
                  v.site = "composition-bounds";
                  v.op_index = index;
                  res.violations.push_back(v);
                }
            }
          off += block_len(p);
        }
    }

    // ---------------------------------------------------------------- twin equality
    void neq_oracle(const Scenario &s, const std::vector<OpRef> &all, RunResult &res)
    {
      std::map<std::string, std::vector<const OpRef *>> groups;
      for (const auto &q : all)
        if (!q.op->neq.empty() && q.resp->status == 0)
          groups[q.op->neq].push_back(&q);
      for (auto &g : groups)
        for (size_t i = 1; i < g.second.size(); ++i)
          {
            const OpRef *a = g.second[0], *b = g.second[i];
            res.counters["evaluations"]++;
            bool same = a->resp->v.size() == b->resp->v.size();
            for (size_t j = 0; same && j < a->resp->v.size(); ++j)
              if (!bits_equal(a->resp->v[j], b->resp->v[j]))
                same = false;
            if (same)
              {
                Violation v;
                v.cls = s.property + "/seed-ignored";
                std::ostringstream o;
                o << "ops " << a->index << " (h" << a->op->h << ") and " << b->index << " (h" << b->op->h << "): worlds with different effective seeds gave identical random answers " << fmt_vec(a->resp->v, 0, 6);
                v.detail = o.str();
                v.site = "seed";
                v.op_index = b->index;
                res.violations.push_back(v);
              }
          }
    }

    void eq_oracle(const Scenario &s, const std::vector<OpRef> &all, RunResult &res)
    {
      std::map<std::string, std::vector<const OpRef *>> groups;
      for (const auto &q : all)
        if (!q.op->eq.empty() && q.resp->status != 3)
          groups[q.op->eq].push_back(&q);
      for (auto &g : groups)
        {
          if (g.second.size() < 2)
            continue;
          const OpRef *a = g.second[0];
          for (size_t i = 1; i < g.second.size(); ++i)
            {
              const OpRef *b = g.second[i];
              res.counters["evaluations"]++;
              std::ostringstream where;
              where << "ops " << a->index << " (h" << a->op->h << "," << (a->op->op == "create" ? a->op->kind : a->op->via) << ",mask " << a->op->mask << ") and "
                    << b->index << " (h" << b->op->h << "," << (b->op->op == "create" ? b->op->kind : b->op->via) << ",mask " << b->op->mask << ") key " << g.first;
              if (a->resp->alloc_fired || b->resp->alloc_fired)
                continue;
              if (a->resp->status != b->resp->status)
                {
                  if (s.property == "C07")
                    {
                      // the evaluation without shortcuts throws where the shipped one returns: a statement about the
                      // far-field behaviour of the geometry kernels, not about culling -> inconclusive. The other way
                      // round (the shipped configuration loses an answer the full evaluation has) is a violation.
                      const OpRef *ship = a->op->mask ? b : a;
                      if (ship->resp->status == 0)
                        {
                          res.counters["inconclusive_throw"]++;
                          continue;
                        }
                      Violation v;
                      v.cls = s.property + "/twin-status";
                      v.detail = where.str() + ": the shipped configuration throws (" + ship->resp->what.substr(0, 200) + ") where the evaluation without shortcuts returns an answer";
                      v.site = "shipped-throws";
                      v.op_index = b->index;
                      res.violations.push_back(v);
                      continue;
                    }
                  Violation v;
                  v.cls = s.property + "/twin-status";
                  v.detail = where.str() + ": one returned, the other threw: " + a->resp->what.substr(0, 150) + " | " + b->resp->what.substr(0, 150);
                  v.site = a->op->op + ":status";
                  v.op_index = b->index;
                  res.violations.push_back(v);
                  continue;
                }
              if (a->resp->status == 1)
                {
                  if (a->op->op == "create" && a->resp->what != b->resp->what)
                    {
                      Violation v;
                      v.cls = s.property + "/twin-message";
                      v.detail = where.str() + ": creations fail with different messages: " + a->resp->what.substr(0, 200) + " | " + b->resp->what.substr(0, 200);
                      v.site = "create:message";
                      v.op_index = b->index;
                      res.violations.push_back(v);
                    }
                  continue;
                }
              if (s.property == "C07" && a->op->via == "properties")
                {
                  // "inside according to the world without shortcuts" probes
                  const OpRef *bug = a->op->mask ? a : b;
                  bool valid;
                  if (expected_len(bug->op->props, valid) == bug->resp->v.size() && valid)
                    {
                      size_t off = 0;
                      for (const auto &p : bug->op->props)
                        {
                          if (p[0] == 4 && bug->resp->v[off] >= 0)
                            {
                              res.counters["inside_" + bug->op->note]++;
                              res.counters["nontrivial"] = 1;
                            }
                          off += block_len(p);
                        }
                    }
                }
              if (a->op->op == "tool" && b->op->op == "tool")
                {
                  if (a->resp->worker_exceptions || b->resp->worker_exceptions)
                    continue; // the real program would have ended in std::terminate: nothing to compare
                  // same files with the same bytes, same exit code; gwb-dat: same table on stdout
                  std::string d;
                  if (a->resp->rc != b->resp->rc)
                    d = "exit codes " + std::to_string(a->resp->rc) + " vs " + std::to_string(b->resp->rc);
                  if (a->resp->written.size() != b->resp->written.size())
                    d = std::to_string(a->resp->written.size()) + " vs " + std::to_string(b->resp->written.size()) + " output files";
                  for (const auto &f : a->resp->written)
                    {
                      auto it = b->resp->written.find(f.first);
                      if (it == b->resp->written.end())
                        d = "file " + f.first + " missing";
                      else if (it->second != f.second)
                        {
                          size_t k = 0;
                          while (k < f.second.size() && k < it->second.size() && f.second[k] == it->second[k])
                            ++k;
                          d = "file " + f.first + " differs at byte " + std::to_string(k) + " (sizes " + std::to_string(f.second.size()) + "/" + std::to_string(it->second.size()) + ")";
                        }
                    }
                  if (d.empty() && a->op->tool == "dat" && a->resp->out != b->resp->out)
                    d = "tables on stdout differ";
                  if (!d.empty())
                    {
                      Violation v;
                      v.cls = s.property + (a->op->tool == "grid" ? "/grid-bytes" : "/dat-bytes");
                      std::string argv_a, argv_b;
                      for (const auto &x : a->op->argv) argv_a += x + " ";
                      for (const auto &x : b->op->argv) argv_b += x + " ";
                      v.detail = "runs [" + argv_a + "] and [" + argv_b + "] of the same input: " + d;
                      v.site = a->op->tool;
                      v.op_index = b->index;
                      res.violations.push_back(v);
                    }
                  continue;
                }
              bool same = a->resp->v.size() == b->resp->v.size();
              size_t bad = 0;
              if (same)
                {
                  // layout, to compare tags exactly even under a tolerance
                  std::vector<char> is_tag(a->resp->v.size(), 0);
                  if (a->op->via == "properties")
                    {
                      bool valid;
                      if (expected_len(a->op->props, valid) == a->resp->v.size() && valid)
                        {
                          size_t off = 0;
                          for (const auto &p : a->op->props)
                            {
                              if (p[0] == 4)
                                is_tag[off] = 1;
                              off += block_len(p);
                            }
                        }
                    }
                  const double tol = std::max(a->op->tol, b->op->tol);
                  for (size_t j = 0; j < a->resp->v.size(); ++j)
                    {
                      const double x = a->resp->v[j], y = b->resp->v[j];
                      bool ok = bits_equal(x, y);
                      if (!ok && tol > 0 && !is_tag[j])
                        ok = std::fabs(x - y) <= tol * std::max(1.0, std::max(std::fabs(x), std::fabs(y)));
                      if (!ok)
                        {
                          same = false;
                          bad = j;
                          break;
                        }
                    }
                }
              if (!same)
                {
                  Violation v;
                  v.cls = s.property + "/twin-mismatch";
                  std::ostringstream o;
                  o << where.str() << " " << a->op->op << " props " << fmt_props(a->op->props) << ": entry " << bad << " differs: "
                    << fmt_vec(a->resp->v, bad, 4) << " vs " << fmt_vec(b->resp->v, bad, 4) << " (sizes " << a->resp->v.size() << "/" << b->resp->v.size() << ")";
                  v.detail = o.str();
                  std::ostringstream sg;
                  sg << a->op->op << ":" << a->op->via << ":" << (a->op->kind != b->op->kind ? a->op->kind + "/" + b->op->kind : std::string("same"));
                  v.site = sg.str();
                  v.op_index = b->index;
                  res.violations.push_back(v);
                  continue;
                }
              if (a->op->op == "create" && b->op->op == "create")
                {
                  // effect traces: same paths, same modes, same bytes
                  bool fx_same = a->resp->fx.size() == b->resp->fx.size();
                  std::string d;
                  for (size_t j = 0; fx_same && j < a->resp->fx.size(); ++j)
                    {
                      const FileEffect &x = a->resp->fx[j], &y = b->resp->fx[j];
                      if (x.path != y.path || x.mode != y.mode || x.opened != y.opened || x.bytes_hash != y.bytes_hash)
                        {
                          fx_same = false;
                          d = "'" + x.path + "' vs '" + y.path + "'";
                        }
                    }
                  if (!fx_same)
                    {
                      Violation v;
                      v.cls = s.property + "/effect-trace";
                      std::ostringstream o;
                      o << where.str() << ": file effects of the two creations differ (" << a->resp->fx.size() << " vs " << b->resp->fx.size() << " opens) " << d;
                      v.detail = o.str();
                      v.site = "create:effects";
                      v.op_index = b->index;
                      res.violations.push_back(v);
                    }
                }
            }
        }
    }
  }

  // ------------------------------------------------------------------ execute
  RunResult execute(const Scenario &s)
  {
    RunResult res;
    const unsigned long fs_calls_before = simfs::calls();
    // process hygiene: a run means the same thing in a batch and in a fresh process
    simfs::reset();
    set_shortcut_mask(0);
    reset_shortcut_fired();
    alloc_disarm();
    reset_streams();
    tsan_report_reset();
    for (const auto &f : s.files)
      simfs::put(f.first, f.second);
    const unsigned long recycled_before = alloc_recycled();
    alloc_recycle(s.alloc_recycle);

    int max_h = -1;
    for (const auto &o : s.ops)
      max_h = std::max(max_h, o.h);
    for (const auto &t : s.threads)
      for (const auto &o : t)
        max_h = std::max(max_h, o.h);
    Handles handles(static_cast<size_t>(max_h + 1));
    res.resp.resize(s.ops.size());
    std::vector<std::string> op_file(s.ops.size());

    // silence the library's chatter (gwb prints nothing normally, the tools are captured separately)
    for (size_t i = 0; i < s.ops.size(); ++i)
      {
        const Op &op = s.ops[i];
        run_op(s, op, handles, res.resp[i], true);
        if (op.h >= 0 && static_cast<size_t>(op.h) < handles.size())
          op_file[i] = op.op == "create" ? op.file : handles[static_cast<size_t>(op.h)].file;
        if (op.op == "destroy")
          op_file[i].clear();
      }

    // concurrent clients
    std::vector<std::vector<std::string>> top_file(s.threads.size());
    if (!s.threads.empty())
      {
        res.tresp.resize(s.threads.size());
        std::vector<ThreadArg> args(s.threads.size());
        for (size_t t = 0; t < s.threads.size(); ++t)
          {
            res.tresp[t].resize(s.threads[t].size());
            top_file[t].resize(s.threads[t].size());
            for (size_t i = 0; i < s.threads[t].size(); ++i)
              {
                const int h = s.threads[t][i].h;
                if (h >= 0 && static_cast<size_t>(h) < handles.size())
                  top_file[t][i] = handles[static_cast<size_t>(h)].file;
              }
            args[t] = ThreadArg {&s, &s.threads[t], &res.tresp[t], &handles};
          }
        SchedParams sp = s.sched;
        sp.script = s.script.empty() ? nullptr : s.script.data();
        sp.script_n = s.script.size() / 2;
        const unsigned tsan_before = tsan_report_count();
        sched_begin(sp);
        std::vector<int> ids;
        for (size_t t = 0; t < s.threads.size(); ++t)
          ids.push_back(spawn(thread_main, &args[t]));
        for (int id : ids)
          join(id);
        res.sched = sched_end();
        if (res.sched.dev != nullptr && !res.sched.dev_overflow)
          res.sched_dev.assign(res.sched.dev, res.sched.dev + 2 * std::min<uint32_t>(res.sched.n_dev, 20000));
        res.tsan_reports += tsan_report_count() - tsan_before;
      }

    // the oracles below build reference worlds: they get memory of their own
    alloc_recycle(0);
    if (alloc_recycled() != recycled_before)
      res.counters["blocks_recycled"] += static_cast<long>(alloc_recycled() - recycled_before);
    // destroy what the scenario left alive
    for (auto &h : handles)
      if (h.alive)
        {
          try
            {
              if (h.kind == "native")
                delete h.native;
              else if (h.kind == "c")
                release_world(h.c);
              else
                delete h.cpp;
            }
          catch (...)
            {
            }
          h = Handle();
        }

    // ---------------- event-log hash
    uint64_t hh = 1469598103934665603ULL;
    for (const auto &r : res.resp)
      hh = hash_resp(r, hh);
    for (const auto &t : res.tresp)
      for (const auto &r : t)
        hh = hash_resp(r, hh);
    if (!res.sched.preempt_on)
      hh = fnv(&res.sched.trace_hash, sizeof(uint64_t), hh);
    res.hash = hh;

    // ---------------- oracles
    const std::string P = s.property;
    std::vector<OpRef> all, queries;
    for (size_t i = 0; i < s.ops.size(); ++i)
      {
        OpRef q {&s.ops[i], &res.resp[i], static_cast<int>(i), -1, op_file[i]};
        all.push_back(q);
        if (s.ops[i].op == "q3" || s.ops[i].op == "q2")
          queries.push_back(q);
      }
    for (size_t t = 0; t < s.threads.size(); ++t)
      for (size_t i = 0; i < s.threads[t].size(); ++i)
        {
          OpRef q {&s.threads[t][i], &res.tresp[t][i], static_cast<int>(i), static_cast<int>(t), top_file[t][i]};
          all.push_back(q);
          if (s.threads[t][i].op == "q3" || s.threads[t][i].op == "q2")
            queries.push_back(q);
        }

    for (const auto &q : all)
      {
        const Op &op = *q.op;
        const Resp &r = *q.resp;
        res.counters["ops"]++;
        res.counters[std::string("op_") + op.op]++;
        if (r.status == 3)
          res.counters["ops_skipped"]++;
        else
          res.counters["outcome_checks"]++; // returned, or threw a std::exception with a message (checked below)
        if (r.status == 1)
          res.counters["ops_threw"]++;
        res.tsan_reports += (q.thread < 0 ? r.tsan_reports : 0);
        for (const auto &f : r.faults)
          if (f.fired)
            res.counters[std::string("fault_") + simfs::fault_name(f.kind)] += 1;
        if (r.alloc_fired)
          res.counters["fault_BAD_ALLOC"]++;
        if (!op.note.empty())
          res.counters["probe_" + op.note]++;
        if (r.status == 2)
          {
            Violation v;
            v.cls = P + "/foreign-exception";
            v.detail = "op " + std::to_string(q.index) + " " + op.op + " threw something that is not a std::exception";
            v.site = op.op;
            v.op_index = q.index;
            res.violations.push_back(v);
          }
        if (r.status == 1 && r.what.empty())
          {
            Violation v;
            v.cls = P + "/empty-message";
            v.detail = "op " + std::to_string(q.index) + " " + op.op + " threw a std::exception with an empty message";
            v.site = op.op;
            v.op_index = q.index;
            res.violations.push_back(v);
          }
        if (op.op == "create" && op.expect == "reject" && r.status == 0)
          {
            Violation v;
            v.cls = P + "/accepted-invalid";
            v.detail = "op " + std::to_string(q.index) + ": a document that must be rejected was accepted (" + op.note + ")";
            v.site = op.note;
            v.op_index = q.index;
            res.violations.push_back(v);
          }
        if (op.op == "create" && op.expect == "accept" && r.status == 1
            && (r.what.find("Delaunator:") != std::string::npos || r.what.find("not triangulation") != std::string::npos))
          {
            // the triangulation of a depth surface gave up on these points (nearly collinear hull points, or a
            // generated polygon whose integer coordinates all lie on one line): a refusal with a message, which
            // the property allows for any file; nothing is expected of such a document
            res.counters["refused_by_triangulation"]++;
          }
        else if (op.op == "create" && op.expect == "accept" && r.status != 0 && !r.alloc_fired)
          {
            Violation v;
            v.cls = P + "/rejected-valid";
            v.detail = "op " + std::to_string(q.index) + ": a document that must build was rejected (" + op.note + "): " + r.what.substr(0, 300);
            v.site = op.note;
            v.op_index = q.index;
            res.violations.push_back(v);
          }
        if ((op.op == "q3" || op.op == "q2") && r.status == 0 && op.via == "properties")
          {
            bool valid;
            const size_t n = expected_len(op.props, valid);
            if (valid && n != r.v.size())
              {
                Violation v;
                v.cls = P + "/length";
                v.detail = "op " + std::to_string(q.index) + " props " + fmt_props(op.props) + ": " + std::to_string(r.v.size()) + " values returned, " + std::to_string(n) + " announced by the documented block sizes";
                v.site = "length";
                v.op_index = q.index;
                res.violations.push_back(v);
              }
          }
        if (op.op == "size" && r.status == 0)
          {
            bool valid;
            const size_t n = expected_len(op.props, valid);
            if (valid && r.v.size() == 1 && static_cast<size_t>(r.v[0]) != n)
              {
                Violation v;
                v.cls = P + "/length";
                v.detail = "op " + std::to_string(q.index) + " properties_output_size" + fmt_props(op.props) + " = " + std::to_string(static_cast<size_t>(r.v[0])) + ", documented block sizes give " + std::to_string(n);
                v.site = "size";
                v.op_index = q.index;
                res.violations.push_back(v);
              }
          }
        if (r.engine_checked)
          {
            res.counters["engine_checks"]++;
            // The engine model (documented number of draws per operation) is stricter than the property:
            // a change of the number of draws per grain keeps "deterministic function of file, seed and
            // query sequence" true. A mismatch is therefore an observation in the evidence, not a violation;
            // leaks of engine state between worlds are caught by the differently interleaved twins.
            if (!r.engine_ok && op.op == "create")
              {
                // at creation the engine must be the documented std::mt19937 seeded with the file's
                // 'random number seed' when that is >= 0, else with the constructor argument
                Violation v;
                v.cls = P + "/seed-state";
                v.detail = "op " + std::to_string(q.index) + " create (" + op.kind + ", constructor seed " + std::to_string(op.seed)
                           + "): the engine is not std::mt19937 seeded with the effective seed";
                v.site = "create:" + op.kind;
                v.op_index = q.index;
                res.violations.push_back(v);
              }
            else if (!r.engine_ok)
              res.counters["engine_model_mismatch"]++;
          }
        validity_checks(s, op, r, q.index, res);
        if (op.op == "tool")
          {
            res.counters["sched_points"] += r.sched.points;
            res.counters["sched_decisions"] += r.sched.decisions;
            res.counters["sched_switches"] += r.sched.switches;
            if (r.sched.preemptions)
              res.counters["sched_preemptions"] += r.sched.preemptions;
            res.counters["threads_created"] += r.threads_created;
            for (int si = 0; si < 8; ++si)
              res.counters["yield_site_" + std::to_string(si)] += r.sched.site_count[si];
            if (r.sched.deadlock)
              {
                Violation v;
                v.cls = P + "/deadlock";
                v.detail = "tool run ended with blocked tasks and nothing runnable";
                v.site = "tool";
                v.op_index = q.index;
                res.violations.push_back(v);
              }
            // The library refused a node (a std::exception out of World::properties, which the query contract
            // allows) and the exception left the worker thread: the real program ends in std::terminate and writes
            // nothing. That is recorded, not judged - the outputs of such a run are not examined further.
            if (r.worker_exceptions)
              res.counters["tool_aborted_on_library_exception"]++;
            if (r.would_terminate || r.sched.unjoined)
              {
                Violation v;
                v.cls = P + "/unjoined-thread";
                v.detail = "a worker thread was destroyed or left behind without being joined (std::thread would call std::terminate)";
                v.site = "tool";
                v.op_index = q.index;
                res.violations.push_back(v);
              }
            for (const auto &e : r.fx)
              if (e.mode == 'w' && e.others_unfinished)
                {
                  Violation v;
                  v.cls = P + "/write-before-join";
                  v.detail = "output file " + e.path + " was opened while a worker thread had not finished";
                  v.site = "tool";
                  v.op_index = q.index;
                  res.violations.push_back(v);
                  break;
                }
            if (op.tool == "dat" && (P == "C17"))
              check_dat(s, op, r, res, q.index);
            if (op.tool == "grid" && (P == "C18") && r.worker_exceptions == 0)
              check_grid(s, op, r, res, q.index);
          }
      }
    if (!s.threads.empty())
      {
        res.counters["sched_points"] += res.sched.points;
        res.counters["sched_decisions"] += res.sched.decisions;
        res.counters["sched_switches"] += res.sched.switches;
        if (res.sched.preemptions)
          res.counters["sched_preemptions"] += res.sched.preemptions;
        for (int si = 0; si < 8; ++si)
          res.counters["yield_site_" + std::to_string(si)] += res.sched.site_count[si];
        if (res.sched.deadlock)
          {
            Violation v;
            v.cls = P + "/deadlock";
            v.detail = "client threads ended blocked with nothing runnable";
            v.site = "threads";
            res.violations.push_back(v);
          }
        if (res.sched.cap_hit)
          res.counters["step_cap_hit"]++;
      }
    if (res.tsan_reports > 0)
      {
        Violation v;
        v.cls = P + "/tsan";
        v.detail = std::to_string(res.tsan_reports) + " ThreadSanitizer report(s) during the run (see stderr of the replay)";
        v.site = "tsan";
        res.violations.push_back(v);
      }
    eq_oracle(s, all, res);
    neq_oracle(s, all, res);
    if (s.oracle == "stateless")
      {
        stateless_oracle(s, queries, res);
        distance_oracle(s, all, res);
      }
    for (int i = 0; i < 16; ++i)
      if (shortcut_fired(i))
        res.counters["buggify_S" + std::to_string(i)] += static_cast<long>(shortcut_fired(i));
    if (simfs::open_descriptors() != 0)
      res.counters["descriptors_left_open"] += simfs::open_descriptors();
    res.counters["fs_calls"] = static_cast<long>(simfs::calls() - fs_calls_before);
    return res;
  }
}
