#ifndef SIM_GEN_H
#define SIM_GEN_H
#include "sim.h"
#include "worlds.h"

namespace sim
{
  // a generated world file plus what the generator knows about it
  struct SlabMeta
  {
    bool fault = false;
    bool spherical = false;
    double radius = 6371000.0;
    std::vector<std::array<double, 2>> trench; // natural coordinates (degrees in spherical)
    std::array<double, 2> dip_point = {{0, 0}};
    double min_depth = 0, max_depth = 1e9;
    double total_length = 0, max_thickness = 0;
    std::vector<std::array<double, 2>> seg_angles; // degrees
    std::vector<double> seg_lengths;
  };

  struct RandomMeta
  {
    // a box-shaped area feature (or plume) with a random model, so that membership is trivial
    bool present = false;
    double x0 = 0, x1 = 0, y0 = 0, y1 = 0;   // natural coordinates of the box
    double min_depth = 0, max_depth = 0;
    std::vector<unsigned> grain_comps;        // compositions of the random grains model
    std::vector<double> grain_sizes;          // per composition (negative = random)
    std::vector<bool> normalize;
    bool deflected = false;
    double min_deflection = 1.0;
    std::vector<unsigned> comp_comps;         // compositions of the random composition model
    std::vector<double> comp_min, comp_max;
    bool comp_present = false;
    bool grains_present = false;
    bool sole_grains_model = false;           // no other grains model anywhere in the file
  };

  struct GenWorld
  {
    std::string json;
    bool spherical = false;
    double radius = 6371000.0;
    std::vector<SlabMeta> slabs;
    RandomMeta rnd;
    long file_seed = -1;
  };

  GenWorld gen_rich_world(Rng &rng, bool with_random_models);
  GenWorld gen_slab_world(Rng &rng);
  GenWorld gen_surface_world(Rng &rng);
  GenWorld gen_random_world(Rng &rng);
  GenWorld gen_refusing_world(Rng &rng);
  // Cartesian plate whose depth surface has a triangle edge along a round coordinate; fills the edge_* fields
  GenWorld gen_edge_world(Rng &rng, WorldInfo &info);

  SchedParams random_sched(Rng &rng, int ntasks_hint);

  struct Slot
  {
    bool alive = false;
    const WorldInfo *w = nullptr;
    std::string path;
    std::vector<ProbePoint> used;
  };
  void fill_query(Op &op, const WorldInfo &w, Slot &slot, Rng &rng, bool allow_invalid, bool allow_grains);

  bool gen_c01(uint64_t seed, uint64_t run, const std::string &tier, Scenario &s);
  bool gen_c07(uint64_t seed, uint64_t run, const std::string &tier, Scenario &s);
  bool gen_c12(uint64_t seed, uint64_t run, const std::string &tier, Scenario &s);
  bool gen_c12_cold(uint64_t seed, uint64_t run, const std::string &tier, Scenario &s);
  bool gen_c14(uint64_t seed, uint64_t run, const std::string &tier, Scenario &s);
  bool gen_c15(uint64_t seed, uint64_t run, const std::string &tier, Scenario &s);
  bool gen_c16(uint64_t seed, uint64_t run, const std::string &tier, Scenario &s);
  bool gen_c17(uint64_t seed, uint64_t run, const std::string &tier, Scenario &s);
  bool gen_c18(uint64_t seed, uint64_t run, const std::string &tier, Scenario &s);
}
#endif
