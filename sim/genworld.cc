// Generated world files.  Every choice comes from the Rng passed in.
#include "gen.h"

#include <algorithm>
#include <cmath>
#include <cstdio>

namespace sim
{
  namespace
  {
    typedef std::vector<std::pair<std::string, std::string>> KV;

    std::string num(double v)
    {
      char b[48];
      if (std::fabs(v) < 1e15 && v == std::floor(v))
        std::snprintf(b, sizeof(b), "%.1f", v);
      else
        std::snprintf(b, sizeof(b), "%.17g", v);
      return b;
    }
    std::string inum(long v)
    {
      return std::to_string(v);
    }
    std::string str(const std::string &s)
    {
      return "\"" + s + "\"";
    }
    std::string list(const std::vector<std::string> &v)
    {
      std::string r = "[";
      for (size_t i = 0; i < v.size(); ++i)
        r += (i ? "," : "") + v[i];
      return r + "]";
    }
    std::string obj(const KV &kv)
    {
      std::string r = "{";
      for (size_t i = 0; i < kv.size(); ++i)
        r += (i ? "," : "") + str(kv[i].first) + ":" + kv[i].second;
      return r + "}";
    }
    // when > 0 every coordinate pair written into a world file is snapped to a multiple of it: round-number
    // geometry puts probe points (midpoints of named points) exactly on polygon and triangle edges
    double g_snap = 0;

    std::string pt(double x, double y)
    {
      if (g_snap > 0)
        {
          x = std::round(x / g_snap) * g_snap;
          y = std::round(y / g_snap) * g_snap;
        }
      return "[" + num(x) + "," + num(y) + "]";
    }
    std::string nums(const std::vector<double> &v)
    {
      std::vector<std::string> s;
      for (double x : v)
        s.push_back(num(x));
      return list(s);
    }
    std::string inums(const std::vector<unsigned> &v)
    {
      std::vector<std::string> s;
      for (unsigned x : v)
        s.push_back(inum(x));
      return list(s);
    }

    struct Frame
    {
      bool spherical = false;
      double radius = 6371000.0;
      double cx = 0, cy = 0; // centre in natural units
      double ex = 1, ey = 1; // half extents in natural units
      double m_per_unit = 1; // metres per natural unit (approx., for dip points etc.)
    };

    double rx(const Frame &f, Rng &r, double lo = -1, double hi = 1)
    {
      return f.cx + f.ex * r.real(lo, hi);
    }
    double ry(const Frame &f, Rng &r, double lo = -1, double hi = 1)
    {
      return f.cy + f.ey * r.real(lo, hi);
    }

    std::vector<std::array<double, 2>> polygon(const Frame &f, Rng &r, double scale = 1.0)
    {
      const int n = static_cast<int>(r.range(3, 7));
      const double px = rx(f, r, -0.5, 0.5), py = ry(f, r, -0.5, 0.5);
      const double rad = scale * r.real(0.25, 0.8);
      std::vector<double> ang;
      for (int i = 0; i < n; ++i)
        ang.push_back((i + r.real(0.1, 0.9)) * 2 * M_PI / n);
      if (r.chance(0.5))
        std::reverse(ang.begin(), ang.end());
      std::vector<std::array<double, 2>> p;
      for (double a : ang)
        {
          const double rr = rad * r.real(0.55, 1.0);
          p.push_back({{px + f.ex *rr *std::cos(a), py + f.ey *rr *std::sin(a)}});
        }
      return p;
    }

    std::string pts(const std::vector<std::array<double, 2>> &p)
    {
      std::vector<std::string> s;
      for (auto &q : p)
        s.push_back(pt(q[0], q[1]));
      return list(s);
    }

    const char *pick_op(Rng &r, bool comp)
    {
      if (comp)
        {
          static const char *o[] = {"replace", "replace", "replace defined only", "add", "subtract"};
          return o[r.below(5)];
        }
      static const char *o[] = {"replace", "replace", "add", "subtract"};
      return o[r.below(4)];
    }

    std::string rotation_matrix(Rng &r)
    {
      // an exact rotation about one axis composed with a permutation: orthonormal to rounding
      const double a = r.real(0, 2 * M_PI), b = r.real(0, M_PI), c = r.real(0, 2 * M_PI);
      const double ca = std::cos(a), sa = std::sin(a), cb = std::cos(b), sb = std::sin(b), cc = std::cos(c), sc = std::sin(c);
      const double R[3][3] = {{ca *cc - cb *sa *sc, -ca *sc - cb *cc *sa, sa * sb},
        {cc *sa + ca *cb *sc, ca *cb *cc - sa * sc, -ca * sb},
        {sb * sc, cc * sb, cb}
      };
      std::vector<std::string> rows;
      for (int i = 0; i < 3; ++i)
        rows.push_back(nums({R[i][0], R[i][1], R[i][2]}));
      return list(rows);
    }

    // depth range helper: min/max keys differ between feature families
    struct Keys
    {
      std::string mn, mx;
    };
    Keys area_keys()
    {
      return {"min depth", "max depth"};
    }
    Keys slab_keys()
    {
      return {"min distance slab top", "max distance slab top"};
    }
    Keys fault_keys()
    {
      return {"min distance fault center", "max distance fault center"};
    }

    std::string temperature_model(Rng &r, const std::string &family, const Keys &k, double lo, double hi, const Frame &f, const std::vector<std::array<double, 2>> &poly)
    {
      KV kv;
      std::vector<std::string> names = {"uniform", "linear", "adiabatic"};
      if (family == "continental plate")
        names.push_back("chapman");
      if (family == "oceanic plate")
        {
          names.push_back("half space model");
          names.push_back("plate model");
          names.push_back("plate model constant age");
        }
      if (family == "subducting plate")
        {
          names.push_back("plate model");
          names.push_back("mass conserving");
        }
      if (family == "plume")
        names = {"uniform", "gaussian"};
      const std::string m = names[r.below(names.size())];
      kv.push_back({"model", str(m)});
      if (m != "gaussian")
        kv.push_back({"operation", str(pick_op(r, false))});
      const double a = lo + (hi - lo) * r.real(0, 0.3), b = lo + (hi - lo) * r.real(0.6, 1.0);
      if (m == "gaussian")
        {
          const int n = static_cast<int>(r.range(1, 3));
          std::vector<double> d, t, s;
          for (int i = 0; i < n; ++i)
            {
              d.push_back(lo + (hi - lo) * (i + r.real(0.1, 0.9)) / n);
              t.push_back(r.real(1500, 2200));
              s.push_back(r.real(10e3, 80e3));
            }
          kv.push_back({"depths", nums(d)});
          kv.push_back({"centerline temperatures", nums(t)});
          kv.push_back({"gaussian sigmas", nums(s)});
          return obj(kv);
        }
      if (r.chance(0.6) || m == "linear" || m.find("plate model") == 0 || m == "half space model")
        {
          kv.push_back({k.mn, num(a)});
          kv.push_back({k.mx, num(b)});
        }
      if (m == "uniform")
        kv.push_back({"temperature", num(r.real(200, 1900))});
      if (m == "linear" && family == "fault")
        {
          kv.push_back({"center temperature", num(r.real(250, 400))});
          kv.push_back({"side temperature", r.chance(0.4) ? num(-1) : num(r.real(1200, 1800))});
        }
      else if (m == "linear" || m == "half space model" || (m.find("plate model") == 0 && family == "oceanic plate"))
        {
          kv.push_back({"top temperature", num(r.real(250, 400))});
          kv.push_back({"bottom temperature", r.chance(0.4) ? num(-1) : num(r.real(1200, 1800))});
        }
      if (m == "adiabatic" && r.chance(0.5))
        kv.push_back({"potential mantle temperature", num(r.real(1400, 1800))});
      if (m == "chapman")
        {
          kv.push_back({"top temperature", num(r.real(250, 320))});
          kv.push_back({"top heat flux", num(r.real(0.03, 0.08))});
        }
      if (m == "plate model constant age")
        kv.push_back({"plate age", num(r.real(1e6, 1.5e8))});
      if (m == "plate model" && family == "subducting plate")
        kv.push_back({"plate velocity", num(r.real(0.01, 0.1))});
      if (m == "mass conserving")
        {
          // a slab that subducts slower than its plate spreads gets "negative ages" deep down, which the library
          // refuses with an exception at query time - wanted: tools have to cope with refused nodes
          const double spreading = r.real(0.02, 0.1);
          kv.push_back({"spreading velocity", num(spreading)});
          kv.push_back({"subducting velocity", num(r.chance(0.5) ? spreading : spreading * r.real(0.1, 0.9))});
          double minx = poly[0][0], maxx = poly[0][0], miny = poly[0][1], maxy = poly[0][1];
          for (auto &p : poly)
            {
              minx = std::min(minx, p[0]);
              maxx = std::max(maxx, p[0]);
              miny = std::min(miny, p[1]);
              maxy = std::max(maxy, p[1]);
            }
          const double off = (f.spherical ? 10.0 : 1500e3) * (r.chance(0.5) ? 1.0 : -1.0);
          kv.push_back({"ridge coordinates", list({list({pt(minx + off, miny - 0.2 * f.ey), pt(minx + off, maxy + 0.2 * f.ey)})})});
          kv.push_back({"coupling depth", num(r.real(50e3, 120e3))});
          kv.push_back({"taper distance", num(r.real(50e3, 150e3))});
          if (r.chance(0.5))
            kv.push_back({"reference model name", str(r.chance(0.5) ? "plate model" : "half space model")});
          if (r.chance(0.4))
            {
              kv.push_back({"apply spline", "true"});
              kv.push_back({"number of points in spline", inum(r.range(3, 12))});
            }
        }
      if ((m == "half space model" || m == "plate model") && family == "oceanic plate")
        {
          // one value, or one value per ridge coordinate: [[time, [[v at point 1, v at point 2]]]]
          if (r.chance(0.4))
            kv.push_back({"spreading velocity", list({list({num(0), list({nums({r.real(0.01, 0.1), r.real(0.01, 0.1)})})})})});
          else
            kv.push_back({"spreading velocity", num(r.real(0.01, 0.1))});
          // one ridge of two points next to the polygon
          double minx = poly[0][0], maxx = poly[0][0], miny = poly[0][1], maxy = poly[0][1];
          for (auto &p : poly)
            {
              minx = std::min(minx, p[0]);
              maxx = std::max(maxx, p[0]);
              miny = std::min(miny, p[1]);
              maxy = std::max(maxy, p[1]);
            }
          const double xr = minx + (maxx - minx) * r.real(-0.2, 1.2);
          kv.push_back({"ridge coordinates", list({list({pt(xr, miny - 0.1 * f.ey), pt(xr + 0.05 * f.ex, maxy + 0.1 * f.ey)})})});
        }
      return obj(kv);
    }

    std::string composition_model(Rng &r, const std::string &family, const Keys &k, double lo, double hi)
    {
      KV kv;
      if ((family == "subducting plate" || family == "oceanic plate") && r.chance(0.2))
        {
          // water content after Tian et al.: asks the world for the temperature at the point (a nested query)
          static const char *lith[] = {"peridotite", "gabbro", "MORB", "sediment"};
          kv.push_back({"model", str("tian water content")});
          kv.push_back({"compositions", inums({static_cast<unsigned>(r.below(4))})});
          kv.push_back({"lithology", str(lith[r.below(4)])});
          kv.push_back({"initial water content", num(r.real(0.5, 6))});
          kv.push_back({"cutoff pressure", num(r.real(5, 26))});
          kv.push_back({k.mn, num(lo)});
          kv.push_back({k.mx, num(lo + (hi - lo) * r.real(0.3, 1.0))});
          kv.push_back({"operation", str(pick_op(r, true))});
          return obj(kv);
        }
      const bool smooth = (family == "subducting plate" || family == "fault") && r.chance(0.3);
      kv.push_back({"model", str(smooth ? "smooth" : "uniform")});
      const int n = static_cast<int>(r.range(1, 3));
      std::vector<unsigned> comps;
      for (int i = 0; i < n; ++i)
        {
          unsigned c = static_cast<unsigned>(r.below(5));
          while (std::find(comps.begin(), comps.end(), c) != comps.end())
            c = (c + 1) % 7;
          comps.push_back(c);
        }
      kv.push_back({"compositions", inums(comps)});
      std::vector<double> fr, fr2;
      for (int i = 0; i < n; ++i)
        {
          fr.push_back(r.chance(0.5) ? 1.0 : r.real(0, 1));
          fr2.push_back(r.real(0, 1));
        }
      if (smooth && family == "fault")
        {
          kv.push_back({"center fractions", nums(fr)});
          kv.push_back({"side fractions", nums(fr2)});
          kv.push_back({"min distance fault center", num(lo)});
          kv.push_back({"side distance fault center", num(lo + (hi - lo) * r.real(0.3, 1.0))});
        }
      else if (smooth)
        {
          kv.push_back({"top fractions", nums(fr)});
          kv.push_back({"bottom fractions", nums(fr2)});
          kv.push_back({k.mn, num(lo)});
          kv.push_back({k.mx, num(lo + (hi - lo) * r.real(0.3, 1.0))});
        }
      else
        {
          if (n > 1 || r.chance(0.6))
            kv.push_back({"fractions", nums(fr)});
          if (r.chance(0.5))
            {
              kv.push_back({k.mn, num(lo + (hi - lo) * r.real(0, 0.4))});
              kv.push_back({k.mx, num(lo + (hi - lo) * r.real(0.5, 1.0))});
            }
        }
      kv.push_back({"operation", str(pick_op(r, true))});
      return obj(kv);
    }

    std::string grains_uniform_model(Rng &r, const Keys &k, double lo, double hi)
    {
      KV kv;
      kv.push_back({"model", str("uniform")});
      const int n = static_cast<int>(r.range(1, 2));
      std::vector<unsigned> comps;
      for (int i = 0; i < n; ++i)
        comps.push_back(static_cast<unsigned>(i + r.below(2) * 2));
      kv.push_back({"compositions", inums(comps)});
      std::vector<std::string> rot;
      std::vector<double> sizes;
      const bool euler = r.chance(0.5);
      for (int i = 0; i < n; ++i)
        {
          rot.push_back(euler ? nums({r.real(0, 360), r.real(0, 180), r.real(0, 360)}) : rotation_matrix(r));
          sizes.push_back(r.chance(0.4) ? -1.0 : r.real(0.01, 1.0));
        }
      kv.push_back({euler ? "Euler angles z-x-z" : "rotation matrices", list(rot)});
      kv.push_back({"grain sizes", nums(sizes)});
      if (r.chance(0.4))
        {
          kv.push_back({k.mn, num(lo)});
          kv.push_back({k.mx, num(lo + (hi - lo) * r.real(0.4, 1.0))});
        }
      return obj(kv);
    }

    std::string velocity_model(Rng &r, const Keys &k, double lo, double hi)
    {
      KV kv;
      kv.push_back({"model", str("uniform raw")});
      kv.push_back({"velocity", nums({r.real(-0.1, 0.1), r.real(-0.1, 0.1), r.real(-0.1, 0.1)})});
      kv.push_back({"operation", str(pick_op(r, false))});
      if (r.chance(0.4))
        {
          kv.push_back({k.mn, num(lo)});
          kv.push_back({k.mx, num(lo + (hi - lo) * r.real(0.4, 1.0))});
        }
      return obj(kv);
    }

    std::string random_grains_model(Rng &r, const Keys &k, double lo, double hi, bool allow_deflected, RandomMeta *meta)
    {
      KV kv;
      const bool deflected = allow_deflected && r.chance(0.5);
      kv.push_back({"model", str(deflected ? "random uniform distribution deflected" : "random uniform distribution")});
      const int n = static_cast<int>(r.range(1, 3));
      std::vector<unsigned> comps;
      std::vector<double> sizes;
      std::vector<std::string> norm;
      std::vector<bool> normb;
      // the labels are usually 0..n-1 in order; otherwise any distinct labels in any order, so that the label of
      // a composition and its position in the lists of the model differ
      unsigned labels[4] = {0, 1, 2, 3};
      if (r.chance(0.5))
        for (int i = 0; i < 3; ++i)
          std::swap(labels[i], labels[i + static_cast<int>(r.below(static_cast<uint64_t>(4 - i)))]);
      for (int i = 0; i < n; ++i)
        {
          comps.push_back(labels[i]);
          // exactly representable with few digits, so that the value the parser stores is the value written
          sizes.push_back(r.chance(0.5) ? -1.0 : static_cast<double>(r.range(3, 58)) / 64.0);
          normb.push_back(r.chance(0.5));
          norm.push_back(normb.back() ? "true" : "false");
        }
      kv.push_back({"compositions", inums(comps)});
      kv.push_back({"grain sizes", nums(sizes)});
      kv.push_back({"normalize grain sizes", list(norm)});
      std::vector<double> defl_record;
      if (deflected)
        {
          std::vector<double> defl;
          std::vector<std::string> basis;
          const bool euler = r.chance(0.5);
          for (int i = 0; i < n; ++i)
            {
              // 0 and 1 are the documented extremes; tiny deflections put all orientations of a point close together
              defl.push_back(r.chance(0.2) ? (r.chance(0.5) ? 0.0 : 1.0) : (r.chance(0.2) ? r.real(1e-5, 2e-3) : r.real(0, 1)));
              basis.push_back(euler ? nums({r.real(0, 360), r.real(0, 180), r.real(0, 360)}) : rotation_matrix(r));
            }
          defl_record = defl;
          kv.push_back({"deflections", nums(defl)});
          kv.push_back({euler ? "basis Euler angles z-x-z" : "basis rotation matrices", list(basis)});
        }
      (void) k;
      (void) lo;
      (void) hi;
      if (meta)
        {
          meta->grains_present = true;
          meta->grain_comps = comps;
          meta->grain_sizes = sizes;
          meta->normalize = normb;
          meta->deflected = deflected;
          meta->min_deflection = 1.0;
          if (deflected)
            for (double dfl : defl_record)
              meta->min_deflection = std::min(meta->min_deflection, dfl);
        }
      return obj(kv);
    }

    std::string random_composition_model(Rng &r, RandomMeta *meta)
    {
      KV kv;
      kv.push_back({"model", str("random")});
      const int n = static_cast<int>(r.range(1, 4));
      std::vector<unsigned> comps;
      std::vector<double> lo, hi;
      for (int i = 0; i < n; ++i)
        {
          comps.push_back(static_cast<unsigned>(i + 2));
          // every entry repeats the first one: the documented behaviour is that min value[0] / max value[0]
          // apply to all listed compositions, whatever the lengths of the two lists
          const double a = i == 0 ? static_cast<double>(r.range(0, 64)) / 128.0 : lo[0];
          lo.push_back(a);
          hi.push_back(i == 0 ? a + static_cast<double>(r.range(1, 64)) / 128.0 : hi[0]);
        }
      // the two lists need not be as long as the list of compositions
      if (r.chance(0.4))
        lo.resize(static_cast<size_t>(r.range(1, n)));
      if (r.chance(0.4))
        hi.resize(static_cast<size_t>(r.range(1, n)));
      kv.push_back({"compositions", inums(comps)});
      kv.push_back({"min value", nums(lo)});
      kv.push_back({"max value", nums(hi)});
      if (meta)
        {
          meta->comp_present = true;
          meta->comp_comps = comps;
          meta->comp_min = lo;
          meta->comp_max = hi;
        }
      return obj(kv);
    }

    std::string model_lists(Rng &r, const std::string &family, const Keys &k, double lo, double hi, const Frame &f,
                            const std::vector<std::array<double, 2>> &poly, KV &kv, bool with_random, RandomMeta *meta, double p_each = 0.7)
    {
      if (r.chance(p_each))
        {
          std::vector<std::string> m;
          const int n = static_cast<int>(r.range(1, 2));
          for (int i = 0; i < n; ++i)
            m.push_back(temperature_model(r, family, k, lo, hi, f, poly));
          kv.push_back({"temperature models", list(m)});
        }
      if (r.chance(p_each))
        {
          std::vector<std::string> m;
          const int n = static_cast<int>(r.range(1, 2));
          for (int i = 0; i < n; ++i)
            m.push_back(composition_model(r, family == "plume" ? "area" : family, k, lo, hi));
          kv.push_back({"composition models", list(m)});
        }
      if (r.chance(p_each))
        kv.push_back({"grains models", list({grains_uniform_model(r, k, lo, hi)})});
      if (r.chance(p_each))
        kv.push_back({"velocity models", list({velocity_model(r, k, lo, hi)})});
      (void) with_random;
      (void) meta;
      return "";
    }

    std::string depth_surface(Rng &r, const std::vector<std::array<double, 2>> &poly, double lo, double hi, double &smin, double &smax);

    std::string area_feature(Rng &r, const Frame &f, const std::string &family, int idx)
    {
      KV kv;
      kv.push_back({"model", str(family)});
      kv.push_back({"name", str(family + " " + std::to_string(idx))});
      if (r.chance(0.3))
        kv.push_back({"tag", str("tag" + std::to_string(r.below(3)))});
      const auto poly = polygon(f, r);
      kv.push_back({"coordinates", pts(poly)});
      const double lo = r.chance(0.6) ? 0.0 : r.real(0, 100e3);
      const double hi = lo + r.real(20e3, 400e3);
      double s0, s1;
      // sometimes the depth range is a surface given as values at points inside the polygon
      kv.push_back({"min depth", (lo > 0 && r.chance(0.25)) ? depth_surface(r, poly, 0.5 * lo, lo, s0, s1) : num(lo)});
      kv.push_back({"max depth", r.chance(0.3) ? depth_surface(r, poly, hi, 1.3 * hi, s0, s1) : num(hi)});
      model_lists(r, family, area_keys(), lo, hi, f, poly, kv, false, nullptr);
      return obj(kv);
    }

    std::string plume_feature(Rng &r, const Frame &f, int idx)
    {
      KV kv;
      kv.push_back({"model", str("plume")});
      kv.push_back({"name", str("plume " + std::to_string(idx))});
      const int n = static_cast<int>(r.range(2, 3));
      std::vector<std::array<double, 2>> c;
      std::vector<double> depths, axis, ecc, rot;
      const double lo = r.real(0, 200e3), hi = lo + r.real(300e3, 1500e3);
      const double px = rx(f, r, -0.6, 0.6), py = ry(f, r, -0.6, 0.6);
      for (int i = 0; i < n; ++i)
        {
          c.push_back({{px + f.ex *r.real(-0.1, 0.1), py + f.ey *r.real(-0.1, 0.1)}});
          depths.push_back(lo + (hi - lo) * (i + r.real(0.2, 0.8)) / n);
          axis.push_back(r.real(50e3, 400e3));
          ecc.push_back(r.real(0, 0.9));
          rot.push_back(r.real(0, 360));
        }
      kv.push_back({"coordinates", pts(c)});
      kv.push_back({"cross section depths", nums(depths)});
      kv.push_back({"semi-major axis", nums(axis)});
      kv.push_back({"eccentricity", nums(ecc)});
      kv.push_back({"rotation angles", nums(rot)});
      kv.push_back({"min depth", num(lo)});
      kv.push_back({"max depth", num(hi)});
      model_lists(r, "plume", area_keys(), lo, hi, f, c, kv, false, nullptr);
      return obj(kv);
    }

    bool g_polar_gentle = false;
    double g_planet_scale = 1.0;

    std::string segment(Rng &r, bool fault, double &length, double &thick_max, std::array<double, 2> &angles, double prev_angle)
    {
      KV kv;
      // on a small planet slabs are smaller too
      const double planet = g_planet_scale;
      length = planet * (g_polar_gentle ? r.real(250e3, 600e3) : r.real(40e3, 400e3));
      const double t1 = planet * r.real(20e3, 150e3), t2 = r.chance(0.5) ? t1 : planet * r.real(20e3, 150e3);
      thick_max = std::max(t1, t2);
      // dips anywhere in (0,180): mostly ordinary slabs, sometimes steep or overturned ones
      auto dip = [&]() -> double
      {
        if (g_polar_gentle)
          return fault ? (r.chance(0.5) ? r.real(10, 35) : r.real(145, 170)) : r.real(5, 35);
        if (fault)
          return r.real(15, 165);
        const double s = r.real();
        if (s < 0.7)
          return r.real(5, 85);
        if (s < 0.85)
          return r.real(80, 100);
        return r.real(95, 175);
      };
      const double a1 = prev_angle > 0 ? prev_angle : dip();
      const double a2 = r.chance(0.4) ? a1 : dip();
      angles = {{a1, a2}};
      kv.push_back({"length", num(length)});
      kv.push_back({"thickness", r.chance(0.5) && t1 == t2 ? nums({t1}) : nums({t1, t2})});
      if (r.chance(0.3))
        {
          const double tt = r.real(0, 0.3) * std::min(t1, t2);
          kv.push_back({"top truncation", r.chance(0.5) ? nums({tt}) : nums({tt, tt * r.real(0, 1)})});
        }
      kv.push_back({"angle", a1 == a2 && r.chance(0.5) ? nums({a1}) : nums({a1, a2})});
      return obj(kv);
    }

    std::string line_feature(Rng &r, const Frame &f, bool fault, int idx, SlabMeta *meta, bool simple_models, double min_depth_forced = -1)
    {
      KV kv;
      g_planet_scale = f.spherical ? std::min(1.0, f.radius / 3e6) : 1.0;
      const std::string family = fault ? "fault" : "subducting plate";
      kv.push_back({"model", str(family)});
      kv.push_back({"name", str(family + " " + std::to_string(idx))});
      const int n = static_cast<int>(r.range(2, 5));
      // next to a pole: often a meridional trench with a long, gently dipping slab, which reaches across
      // many degrees of longitude
      const bool polar = f.spherical && std::fabs(f.cy) >= 79 && r.chance(0.6);
      g_polar_gentle = polar;
      // a trench: points along a direction with sideways wiggle
      const double dir = polar ? (r.chance(0.5) ? M_PI / 2 : -M_PI / 2) + r.real(-0.15, 0.15) : r.real(0, 2 * M_PI);
      const double step = r.real(0.25, 0.6);
      double x = rx(f, r, -0.5, 0.5) - 0.5 * (n - 1) * step * f.ex * std::cos(dir);
      double y = ry(f, r, -0.5, 0.5) - 0.5 * (n - 1) * step * f.ey * std::sin(dir);
      std::vector<std::array<double, 2>> c;
      const double wiggle = r.chance(0.3) ? 0.0 : r.real(0, 0.25);
      for (int i = 0; i < n; ++i)
        {
          const double w = wiggle * step * r.real(-1, 1);
          c.push_back({{x - w *f.ex *std::sin(dir), y + w *f.ey *std::cos(dir)}});
          x += step * f.ex * std::cos(dir);
          y += step * f.ey * std::sin(dir);
        }
      if (f.spherical)
        for (auto &p : c)
          {
            p[1] = std::max(-88.0, std::min(88.0, p[1]));
            p[0] = std::max(-358.0, std::min(358.0, p[0]));
          }
      kv.push_back({"coordinates", pts(c)});
      const double side = r.chance(0.5) ? 1.0 : -1.0;
      const double mx = 0.5 * (c.front()[0] + c.back()[0]), my = 0.5 * (c.front()[1] + c.back()[1]);
      std::array<double, 2> dp = {{mx - side *f.ex *1.5 * std::sin(dir), my + side *f.ey *1.5 * std::cos(dir)}};
      if (f.spherical)
        dp[1] = std::max(-89.0, std::min(89.0, dp[1]));
      kv.push_back({"dip point", pt(dp[0], dp[1])});
      const double lo = min_depth_forced >= 0 ? min_depth_forced : (r.chance(0.55) ? 0.0 : r.real(5e3, 250e3));
      if (lo > 0 || r.chance(0.3))
        kv.push_back({"min depth", num(lo)});
      double hi = 1e9;
      if (r.chance(0.3))
        {
          hi = lo + r.real(100e3, 900e3);
          kv.push_back({"max depth", num(hi)});
        }
      const int ns = static_cast<int>(r.range(1, 3));
      std::vector<std::string> segs;
      double total = 0, tmax = 0, prev = -1;
      std::vector<std::array<double, 2>> angs;
      std::vector<double> lens;
      for (int i = 0; i < ns; ++i)
        {
          double len, th;
          std::array<double, 2> a;
          segs.push_back(segment(r, fault, len, th, a, r.chance(0.7) ? prev : -1));
          prev = a[1];
          total += len;
          tmax = std::max(tmax, th);
          angs.push_back(a);
          lens.push_back(len);
        }
      kv.push_back({"segments", list(segs)});
      if (r.chance(0.25))
        {
          // override the section of one coordinate (same number of segments)
          std::vector<std::string> segs2;
          double t2 = 0, prev2 = -1;
          for (int i = 0; i < ns; ++i)
            {
              double len, th;
              std::array<double, 2> a;
              segs2.push_back(segment(r, fault, len, th, a, r.chance(0.7) ? prev2 : -1));
              prev2 = a[1];
              t2 += len;
              tmax = std::max(tmax, th);
            }
          total = std::max(total, t2);
          kv.push_back({"sections", list({obj({{"coordinate", inum(static_cast<long>(r.below(static_cast<uint64_t>(n))))}, {"segments", list(segs2)}})})});
        }
      const Keys k = fault ? fault_keys() : slab_keys();
      if (simple_models)
        {
          kv.push_back({"temperature models", list({obj({{"model", str("uniform")}, {"temperature", num(r.real(300, 900))}})})});
          kv.push_back({"composition models", list({obj({{"model", str("uniform")}, {"compositions", inums({static_cast<unsigned>(idx % 3)})}})})});
        }
      else
        model_lists(r, family, k, 0, tmax, f, c, kv, false, nullptr);
      if (meta)
        {
          meta->fault = fault;
          meta->spherical = f.spherical;
          meta->radius = f.radius;
          meta->trench = c;
          meta->dip_point = dp;
          meta->min_depth = lo;
          meta->max_depth = hi;
          meta->total_length = total;
          meta->max_thickness = tmax;
          meta->seg_angles = angs;
          meta->seg_lengths = lens;
        }
      return obj(kv);
    }

    Frame random_frame(Rng &r, bool allow_extreme)
    {
      Frame f;
      f.spherical = r.chance(0.45);
      if (f.spherical)
        {
          // mostly the Earth, otherwise any planet down to a few hundred kilometres (worlds of one process need not
          // live on the same planet)
          f.radius = r.chance(0.7) ? 6371000.0 : (r.chance(0.35) ? r.real(6e5, 1e6) : r.real(1e6, 7e6));
          f.cx = r.real(-120, 120);
          f.cy = r.real(-40, 40);
          if (allow_extreme && r.chance(0.25))
            f.cx = r.chance(0.5) ? r.real(160, 200) : r.real(-200, -160); // across the dateline
          if (allow_extreme && r.chance(0.2))
            f.cy = r.chance(0.5) ? r.real(60, 78) : r.real(-78, -60);     // high latitude
          else if (allow_extreme && r.chance(0.12))
            f.cy = r.chance(0.5) ? r.real(79, 86) : r.real(-86, -79);     // next to a pole
          f.ex = r.real(3, 15);
          f.ey = std::max(0.5, std::min(r.real(3, 15), 88.0 - std::fabs(f.cy)));
          f.m_per_unit = f.radius * M_PI / 180.0;
        }
      else
        {
          f.cx = r.chance(0.5) ? 0 : r.real(-2e6, 2e6);
          f.cy = r.chance(0.5) ? 0 : r.real(-2e6, 2e6);
          f.ex = r.real(200e3, 1500e3);
          f.ey = r.real(200e3, 1500e3);
        }
      return f;
    }

    std::string world_header(Rng &r, const Frame &f, KV &kv, bool cross_section)
    {
      kv.push_back({"version", str("1.1")});
      if (f.spherical)
        {
          static const char *dm[] = {"starting point", "begin segment", "begin at end segment"};
          // 'continuous' is in the schema's enum but not available: such a file has to be refused (it once built
          // a world with an uninitialised depth method), so it is still generated now and then
          KV cs = {{"model", str("spherical")}, {"depth method", str(r.chance(0.04) ? "continuous" : dm[r.below(3)])}};
          if (f.radius != 6371000.0)
            cs.push_back({"radius", num(f.radius)});
          kv.push_back({"coordinate system", obj(cs)});
        }
      else if (r.chance(0.5))
        kv.push_back({"coordinate system", obj({{"model", str("cartesian")}})});
      if (cross_section)
        kv.push_back({"cross section", list({pt(rx(f, r, -1, -0.3), ry(f, r, -1, 1)), pt(rx(f, r, 0.3, 1), ry(f, r, -1, 1))})});
      if (r.chance(0.5))
        {
          kv.push_back({"surface temperature", num(r.real(250, 320))});
          kv.push_back({"force surface temperature", r.chance(0.75) ? "true" : "false"});
        }
      if (r.chance(0.3))
        kv.push_back({"potential mantle temperature", num(r.real(1400, 1800))});
      if (r.chance(0.2))
        kv.push_back({"thermal expansion coefficient", num(r.real(2e-5, 4e-5))});
      if (r.chance(0.2))
        kv.push_back({"specific heat", num(r.real(1000, 1400))});
      // every world-level constant is a property of its world: worlds of one process rarely share all of them
      if (r.chance(0.4))
        kv.push_back({"thermal diffusivity", num(r.real(0.4e-6, 3e-6))});
      if (r.chance(0.2))
        kv.push_back({"gravity model", obj({{"model", str("uniform")}, {"magnitude", num(r.real(5, 12))}})});
      return "";
    }
  }

  GenWorld gen_rich_world(Rng &r, bool with_random_models)
  {
    GenWorld g;
    const Frame f = random_frame(r, false);
    struct SnapGuard
    {
      ~SnapGuard()
      {
        g_snap = 0;
      }
    } snap_guard;
    if (r.chance(0.3))
      g_snap = f.spherical ? 1.0 : 50e3;
    g.spherical = f.spherical;
    g.radius = f.radius;
    KV kv;
    world_header(r, f, kv, r.chance(0.75));
    std::vector<std::string> feats;
    const int n = static_cast<int>(r.range(1, 4));
    static const char *area[] = {"continental plate", "oceanic plate", "mantle layer"};
    for (int i = 0; i < n; ++i)
      {
        const double s = with_random_models ? r.real(0.45, 0.68) : r.real(); // second argument: plume-heavy mix
        if (s < 0.5)
          feats.push_back(area_feature(r, f, area[r.below(3)], i));
        else if (s < 0.62)
          feats.push_back(plume_feature(r, f, i));
        else
          {
            SlabMeta m;
            feats.push_back(line_feature(r, f, s >= 0.85, i, &m, false));
            g.slabs.push_back(m);
            // a layer painted after the slab that changes the temperature where the slab is (models that ask the
            // world for the temperature at the point see it, the slab's own running value does not)
            if (r.chance(0.3))
              {
                KV lk;
                lk.push_back({"model", str("mantle layer")});
                lk.push_back({"name", str("layer over slab " + std::to_string(i))});
                lk.push_back({"coordinates", list({pt(f.cx - 3 * f.ex, f.cy - (f.spherical ? std::min(3 * f.ey, 85.0 - std::fabs(f.cy)) : 3 * f.ey)), pt(f.cx + 3 * f.ex, f.cy - (f.spherical ? std::min(3 * f.ey, 85.0 - std::fabs(f.cy)) : 3 * f.ey)),
                                                  pt(f.cx + 3 * f.ex, f.cy + (f.spherical ? std::min(3 * f.ey, 85.0 - std::fabs(f.cy)) : 3 * f.ey)), pt(f.cx - 3 * f.ex, f.cy + (f.spherical ? std::min(3 * f.ey, 85.0 - std::fabs(f.cy)) : 3 * f.ey))})});
                lk.push_back({"min depth", num(0)});
                lk.push_back({"max depth", num(r.real(200e3, 900e3))});
                lk.push_back({"temperature models", list({obj({{"model", str("uniform")}, {"operation", str(r.chance(0.7) ? "add" : "subtract")}, {"temperature", num(r.real(50, 300))}})})});
                feats.push_back(obj(lk));
              }
          }
      }
    kv.push_back({"features", list(feats)});
    g.json = obj(kv);
    return g;
  }

  GenWorld gen_slab_world(Rng &r)
  {
    GenWorld g;
    const Frame f = random_frame(r, true);
    g.spherical = f.spherical;
    g.radius = f.radius;
    KV kv;
    world_header(r, f, kv, false);
    std::vector<std::string> feats;
    const int n = static_cast<int>(r.range(1, 2));
    for (int i = 0; i < n; ++i)
      {
        SlabMeta m;
        feats.push_back(line_feature(r, f, r.chance(0.4), i, &m, r.chance(0.6)));
        g.slabs.push_back(m);
      }
    kv.push_back({"features", list(feats)});
    g.json = obj(kv);
    return g;
  }

  namespace
  {
    std::string depth_surface(Rng &r, const std::vector<std::array<double, 2>> &poly, double lo, double hi, double &smin, double &smax)
    {
      // [[default],[value,[[x,y],...]],...] with extra points inside the polygon
      const double def = r.real(lo, hi);
      smin = smax = def;
      std::vector<std::string> entries;
      entries.push_back(list({num(def)}));
      double cx = 0, cy = 0;
      for (auto &p : poly)
        {
          cx += p[0] / poly.size();
          cy += p[1] / poly.size();
        }
      const int groups = static_cast<int>(r.range(1, 4));
      for (int gi = 0; gi < groups; ++gi)
        {
          const double v = r.real(lo, hi);
          smin = std::min(smin, v);
          smax = std::max(smax, v);
          std::vector<std::string> ps;
          const int np = static_cast<int>(r.range(1, 3));
          for (int i = 0; i < np; ++i)
            {
              if (r.chance(0.25))
                {
                  const auto &c = poly[r.below(poly.size())]; // a value on a corner replaces its default
                  ps.push_back(pt(c[0], c[1]));
                }
              else
                {
                  // star-shaped polygon around its centroid: centroid + t*(vertex-centroid) is inside
                  const auto &c = poly[r.below(poly.size())];
                  const double t = r.real(0, 0.85);
                  ps.push_back(pt(cx + t * (c[0] - cx), cy + t * (c[1] - cy)));
                }
            }
          entries.push_back(list({num(v), list(ps)}));
        }
      return list(entries);
    }
  }

  GenWorld gen_surface_world(Rng &r)
  {
    GenWorld g;
    const Frame f = random_frame(r, true);
    g.spherical = f.spherical;
    g.radius = f.radius;
    KV kv;
    world_header(r, f, kv, false);
    std::vector<std::string> feats;
    const int n = static_cast<int>(r.range(1, 3));
    static const char *area[] = {"continental plate", "oceanic plate", "mantle layer"};
    for (int i = 0; i < n; ++i)
      {
        KV fk;
        const std::string family = area[r.below(3)];
        fk.push_back({"model", str(family)});
        fk.push_back({"name", str(family + " " + std::to_string(i))});
        const auto poly = polygon(f, r, 1.2);
        fk.push_back({"coordinates", pts(poly)});
        double a, b, c, d;
        const double split = r.real(80e3, 200e3);
        fk.push_back({"min depth", r.chance(0.7) ? depth_surface(r, poly, 0, split * 0.9, a, b) : num(r.real(0, split * 0.5))});
        fk.push_back({"max depth", r.chance(0.8) ? depth_surface(r, poly, split, split + 300e3, c, d) : num(split + r.real(10e3, 300e3))});
        // models with their own depth surfaces (pre-tested against the smallest/largest surface value) or without
        auto model_range = [&](KV &mk)
        {
          if (!r.chance(0.6))
            return;
          double e, g2;
          const double msplit = r.real(60e3, 250e3);
          mk.push_back({"min depth", r.chance(0.6) ? depth_surface(r, poly, 0, msplit * 0.9, e, g2) : num(r.real(0, msplit * 0.5))});
          mk.push_back({"max depth", r.chance(0.7) ? depth_surface(r, poly, msplit, msplit + 250e3, e, g2) : num(msplit + r.real(10e3, 250e3))});
        };
        std::vector<std::string> tm, cm;
        const int ntm = static_cast<int>(r.range(1, 2));
        for (int k = 0; k < ntm; ++k)
          {
            KV mk;
            const bool linear = r.chance(0.4) && family != "oceanic plate";
            mk.push_back({"model", str(linear ? "linear" : "uniform")});
            if (linear)
              {
                mk.push_back({"top temperature", num(r.real(280, 400))});
                mk.push_back({"bottom temperature", num(r.real(1000, 1700))});
                double e, g2;
                mk.push_back({"max depth", r.chance(0.7) ? depth_surface(r, poly, 100e3, 400e3, e, g2) : num(r.real(100e3, 400e3))});
              }
            else
              {
                mk.push_back({"temperature", num(r.real(300, 1500))});
                model_range(mk);
              }
            tm.push_back(obj(mk));
          }
        KV ck;
        ck.push_back({"model", str("uniform")});
        ck.push_back({"compositions", inums({static_cast<unsigned>(i)})});
        model_range(ck);
        cm.push_back(obj(ck));
        fk.push_back({"temperature models", list(tm)});
        fk.push_back({"composition models", list(cm)});
        if (r.chance(0.4))
          {
            KV vk;
            vk.push_back({"model", str("uniform raw")});
            vk.push_back({"velocity", nums({r.real(-0.1, 0.1), r.real(-0.1, 0.1), r.real(-0.1, 0.1)})});
            model_range(vk);
            fk.push_back({"velocity models", list({obj(vk)})});
          }
        feats.push_back(obj(fk));
      }
    kv.push_back({"features", list(feats)});
    g.json = obj(kv);
    return g;
  }

  GenWorld gen_random_world(Rng &r)
  {
    GenWorld g;
    Frame f = random_frame(r, false);
    g.spherical = f.spherical;
    g.radius = f.radius;
    KV kv;
    world_header(r, f, kv, r.chance(0.5));
    if (r.chance(0.5))
      {
        static const long seeds[] = {-1, 0, 1, 7, 12345};
        g.file_seed = r.chance(0.3) ? static_cast<long>(r.below(1000000)) : seeds[r.below(5)];
        kv.push_back({"random number seed", inum(g.file_seed)});
      }
    std::vector<std::string> feats;
    // optionally a non-random feature first
    if (r.chance(0.4))
      feats.push_back(area_feature(r, f, "mantle layer", 0));
    // the random feature: an axis-aligned box, so the harness can tell membership itself
    const double sel = r.real();
    RandomMeta &m = g.rnd;
    m.present = true;
    m.x0 = f.cx - f.ex * r.real(0.2, 0.6);
    m.x1 = f.cx + f.ex * r.real(0.2, 0.6);
    m.y0 = f.cy - f.ey * r.real(0.2, 0.6);
    m.y1 = f.cy + f.ey * r.real(0.2, 0.6);
    m.min_depth = r.chance(0.5) ? 0 : r.real(0, 50e3);
    m.max_depth = m.min_depth + r.real(50e3, 300e3);
    const std::vector<std::array<double, 2>> box = {{{m.x0, m.y0}}, {{m.x1, m.y0}}, {{m.x1, m.y1}}, {{m.x0, m.y1}}};
    if (sel < 0.75)
      {
        static const char *area[] = {"continental plate", "oceanic plate", "mantle layer"};
        const std::string family = area[r.below(3)];
        KV fk;
        fk.push_back({"model", str(family)});
        fk.push_back({"name", str("random box")});
        fk.push_back({"coordinates", pts(box)});
        fk.push_back({"min depth", num(m.min_depth)});
        fk.push_back({"max depth", num(m.max_depth)});
        if (r.chance(0.5))
          fk.push_back({"temperature models", list({obj({{"model", str("uniform")}, {"temperature", num(r.real(300, 1500))}})})});
        const bool grains = r.chance(0.8);
        if (grains)
          fk.push_back({"grains models", list({random_grains_model(r, area_keys(), m.min_depth, m.max_depth, true, &m)})});
        if (family == "continental plate" && (r.chance(0.6) || !grains))
          fk.push_back({"composition models", list({random_composition_model(r, &m)})});
        else if (!grains)
          fk.push_back({"grains models", list({random_grains_model(r, area_keys(), m.min_depth, m.max_depth, true, &m)})});
        feats.push_back(obj(fk));
      }
    else
      {
        // a slab or fault carrying a random grains model: no draw prediction, twins only
        m.present = false;
        SlabMeta sm;
        KV dummy;
        std::string lf = line_feature(r, f, r.chance(0.4), 1, &sm, true);
        // splice a random grains model into the feature object
        const std::string gm = random_grains_model(r, sm.fault ? fault_keys() : slab_keys(), 0, sm.max_thickness, true, &m);
        lf.insert(lf.size() - 1, ",\"grains models\":[" + gm + "]");
        feats.push_back(lf);
        g.slabs.push_back(sm);
      }
    kv.push_back({"features", list(feats)});
    g.json = obj(kv);
    size_t n_grains_lists = 0;
    for (size_t at = g.json.find("\"grains models\""); at != std::string::npos; at = g.json.find("\"grains models\"", at + 1))
      ++n_grains_lists;
    m.sole_grains_model = m.grains_present && n_grains_lists == 1;
    return g;
  }

  GenWorld gen_edge_world(Rng &r, WorldInfo &info)
  {
    GenWorld g;
    const double L = r.chance(0.5) ? 1000e3 : 600e3;
    const double ox = 100e3 * static_cast<double>(r.range(-5, 5)), oy = 100e3 * static_cast<double>(r.range(-5, 5));
    const bool vertical = r.chance(0.5);
    const double c = (vertical ? ox : oy) + L / 2;
    const double d0 = 300e3, d1 = r.real(100e3, 200e3), d2 = r.real(100e3, 200e3);
    const std::string p1 = vertical ? pt(c, oy) : pt(ox, c);
    const std::string p2 = vertical ? pt(c, oy + L) : pt(ox + L, c);
    const std::string surface = list({list({num(d0)}), list({num(d1), list({p1})}), list({num(d2), list({p2})})});
    KV kv;
    kv.push_back({"version", str("1.1")});
    kv.push_back({"coordinate system", obj({{"model", str("cartesian")}})});
    if (r.chance(0.5))
      kv.push_back({"cross section", list({pt(ox, oy + L / 4), pt(ox + L, oy + 3 * L / 4)})});
    KV fk;
    fk.push_back({"model", str(r.chance(0.5) ? "continental plate" : "oceanic plate")});
    fk.push_back({"name", str("variable thickness plate")});
    fk.push_back({"coordinates", list({pt(ox, oy), pt(ox, oy + L), pt(ox + L, oy + L), pt(ox + L, oy)})});
    fk.push_back({"max depth", surface});
    fk.push_back({"temperature models", list({obj({{"model", str("linear")}, {"max depth", surface}, {"top temperature", num(293)}, {"bottom temperature", num(1600)}})})});
    fk.push_back({"composition models", list({obj({{"model", str("uniform")}, {"compositions", inums({0})}, {"max depth", surface}})})});
    kv.push_back({"features", list({obj(fk)})});
    g.json = obj(kv);
    info = analyse_world("edge.wb", g.json);
    info.edge_world = true;
    info.edge_vertical = vertical;
    info.edge_c = c;
    info.edge_lo = vertical ? oy : ox;
    info.edge_hi = info.edge_lo + L;
    info.edge_depth = std::min(d1, d2);
    return g;
  }

  GenWorld gen_refusing_world(Rng &r)
  {
    // a Cartesian slab that subducts slower than its plate spreads: deep along the slab the mass conserving
    // model computes a negative age and the library refuses the point with an exception
    GenWorld g;
    const double x0 = 100e3 * static_cast<double>(r.range(-3, 3));
    const double spreading = r.real(0.045, 0.055);
    KV tm = {{"model", str("mass conserving")}, {"density", num(3300)}, {"thermal conductivity", num(3.3)}, {"adiabatic heating", "true"},
      {"spreading velocity", num(spreading)}, {"subducting velocity", num(spreading * r.real(0.15, 0.25))},
      {"ridge coordinates", list({list({pt(x0 - 1600e3, -500e3), pt(x0 - 1600e3, 500e3)})})},
      {"coupling depth", num(80e3)}, {"forearc cooling factor", num(r.real(15, 20))}, {"taper distance", num(100e3)},
      {"min distance slab top", num(0)}, {"max distance slab top", num(100e3)}
    };
    if (r.chance(0.4))
      {
        tm.push_back({"apply spline", "true"});
        tm.push_back({"number of points in spline", inum(r.range(3, 12))});
      }
    KV fk = {{"model", str("subducting plate")}, {"name", str("slow slab")}, {"coordinates", list({pt(x0, -500e3), pt(x0, 500e3)})},
      {"dip point", pt(x0 + 1000e3, 0)},
      {"segments", list({obj({{"length", num(r.real(580e3, 650e3))}, {"thickness", nums({100e3})}, {"angle", nums({r.real(42, 48)})}})})},
      {"temperature models", list({obj(tm)})}, {"composition models", list({obj({{"model", str("uniform")}, {"compositions", inums({0})}})})}
    };
    KV kv = {{"version", str("1.1")}, {"coordinate system", obj({{"model", str("cartesian")}})},
      {"cross section", list({pt(x0 - 200e3, 0), pt(x0 + 700e3, 0)})},
      {"surface temperature", num(273)}, {"potential mantle temperature", num(1623)}, {"thermal expansion coefficient", num(3.1e-5)},
      {"specific heat", num(1000)}, {"thermal diffusivity", num(1.0e-6)}, {"features", list({obj(fk)})}
    };
    g.json = obj(kv);
    return g;
  }
}
