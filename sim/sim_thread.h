// std::sim_thread: the surface of std::thread that gwb-grid uses, backed by
// the deterministic scheduler.  sim/tool_grid.cc maps `thread` to it while
// including the tool's main.cc.
#ifndef SIM_SIM_THREAD_H
#define SIM_SIM_THREAD_H
#include "simsched.h"
#include <functional>
#include <memory>
#include <utility>

namespace simthread
{
  extern unsigned created;
  extern unsigned would_terminate;
  extern unsigned worker_exceptions;
}

namespace std
{
  class sim_thread
  {
    public:
      sim_thread() noexcept = default;
      template <class F, class... Args>
      explicit sim_thread(F &&f, Args &&... args)
      {
        fn.reset(new std::function<void()>(std::bind(std::forward<F>(f), std::forward<Args>(args)...)));
        __atomic_fetch_add(&simthread::created, 1u, __ATOMIC_RELAXED);
        id = sim::spawn(&sim_thread::run, fn.get());
        if (id < 0)
          {
            // scheduler not active: run inline (sequential semantics)
            (*fn)();
            fn.reset();
          }
      }
      sim_thread(const sim_thread &) = delete;
      sim_thread &operator=(const sim_thread &) = delete;
      sim_thread(sim_thread &&o) noexcept : id(o.id), fn(std::move(o.fn))
      {
        o.id = -1;
      }
      sim_thread &operator=(sim_thread &&o) noexcept
      {
        if (joinable())
          __atomic_fetch_add(&simthread::would_terminate, 1u, __ATOMIC_RELAXED); // std::thread would call std::terminate here
        id = o.id;
        fn = std::move(o.fn);
        o.id = -1;
        return *this;
      }
      ~sim_thread()
      {
        if (joinable())
          {
            __atomic_fetch_add(&simthread::would_terminate, 1u, __ATOMIC_RELAXED); // std::thread would call std::terminate here
            sim::join(id);
          }
      }
      bool joinable() const noexcept
      {
        return id >= 0;
      }
      void join()
      {
        if (id >= 0)
          sim::join(id);
        id = -1;
      }
      void detach()
      {
        __atomic_fetch_add(&simthread::would_terminate, 1u, __ATOMIC_RELAXED); // not supported by the simulator, never used by the tool
      }
      static unsigned int hardware_concurrency() noexcept
      {
        return 4;
      }

    private:
      static void run(void *p)
      {
        try
          {
            (*static_cast<std::function<void()> *>(p))();
          }
        catch (...)
          {
            __atomic_fetch_add(&simthread::worker_exceptions, 1u, __ATOMIC_RELAXED); // an exception escaping a std::thread terminates the program
          }
      }
      int id = -1;
      std::unique_ptr<std::function<void()>> fn;
  };
}
#endif
