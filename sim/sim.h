// Common types of the simulator: scenario (the replay file), operations,
// responses, violations.  A scenario is plain data; executing it is a pure
// function of the scenario and the code under test.
#ifndef SIM_SIM_H
#define SIM_SIM_H

#include "rng.h"
#include "simsched.h"
#include "simfs.h"

#include <array>
#include <cstdint>
#include <map>
#include <string>
#include <vector>

namespace sim
{
  typedef std::array<unsigned int, 3> Prop;

  struct GrainCheck
  {
    bool on = false;
    bool rot = true;          // every returned rotation must be proper
    bool sum1 = false;        // sizes sum to one
    bool fixed = false;       // sizes returned as given
    std::vector<double> sizes;
    bool inside = false;      // the generator knows the point is inside the random feature
  };

  struct Op
  {
    std::string op;           // create destroy q3 q2 size dist tool
    int h = -1;               // handle slot
    // create
    std::string file;
    unsigned long seed = 1;
    std::string kind = "native"; // native | c | cpp
    int has_outdir = -1;      // -1: argument omitted / null pointer, 0 false, 1 true
    bool outdir_null = true;
    std::string outdir;
    unsigned mask = 0;        // buggify mask while this op runs
    std::vector<simfs::Fault> faults;
    long alloc_fail = 0;      // n-th operator new inside this op throws (0 = off)
    std::string expect;       // "", "reject", "accept"
    // queries
    double p[3] = {0, 0, 0};
    double d = 0;
    std::vector<Prop> props;
    std::string via = "properties"; // properties temperature temperature_g composition grains
    std::string name;         // dist: feature name
    // oracles attached to the op
    std::string eq;           // responses of ops with the same key must be equal
    std::string neq;          // responses of ops with the same key must differ
    double tol = 0;           // relative tolerance for eq (0 = bit-identical)
    long draws = -1;          // expected number of engine draws (-1: not predicted)
    GrainCheck gc;
    double comp_lo = 0, comp_hi = 0;
    bool comp_check = false;
    // tools
    std::string tool;         // grid | dat
    std::vector<std::string> argv;
    SchedParams sched;
    std::vector<uint32_t> script; // storage for sched.script
    std::string note;         // free text from the generator (probe labels)
    bool noref = false;       // exclude from the stateless reference oracle
  };

  struct FileEffect
  {
    std::string path;
    char mode = 'r';
    bool opened = false;
    bool closed = false;
    bool others_unfinished = false;
    uint64_t bytes_hash = 0;
    size_t size = 0;
  };

  struct Resp
  {
    int status = 3;           // 0 ok, 1 std::exception, 2 foreign exception, 3 skipped
    std::string what;
    std::vector<double> v;
    std::vector<FileEffect> fx;
    std::string out;          // tool stdout
    std::string err;          // tool stderr
    std::map<std::string, std::string> written; // files a tool wrote (path -> bytes)
    int rc = 0;
    bool engine_ok = true;    // engine model comparison
    bool engine_checked = false;
    uint64_t engine_hash = 0;
    std::vector<simfs::Fault> faults; // plan with fired counters
    unsigned long alloc_count = 0;
    bool alloc_fired = false;
    SchedStats sched;
    std::vector<uint32_t> sched_dev; // copy of the deviation pairs (the scheduler's buffer is reused)
    unsigned tsan_reports = 0;
    unsigned would_terminate = 0;
    unsigned worker_exceptions = 0;
    unsigned threads_created = 0;
  };

  struct Scenario
  {
    std::string property;
    std::string generator;    // which generator produced it (free text)
    uint64_t seed = 0;
    uint64_t run = 0;
    std::map<std::string, std::string> files;
    std::vector<Op> ops;                    // sequential part (setup when threads exist)
    std::vector<std::vector<Op>> threads;   // concurrent clients
    SchedParams sched;                      // schedule of the concurrent part
    std::vector<uint32_t> script;
    std::string oracle;       // "", "stateless"
    bool engine_model = false;
    int alloc_recycle = 0;    // address recycling by the simulated allocator (see simalloc.cc)
    bool cold = false;        // meant to be the first thing a process does: never executed twice in one process
    std::vector<std::string> probes;        // labels the generator attaches
  };

  struct Violation
  {
    std::string cls;          // e.g. C01/block-mismatch
    std::string detail;
    std::string site;         // signature for known-finding matching
    int op_index = -1;
  };

  struct RunResult
  {
    std::vector<Violation> violations;
    uint64_t hash = 0;
    std::map<std::string, long> counters;   // probes, faults fired, evaluations ...
    std::vector<Resp> resp;
    std::vector<std::vector<Resp>> tresp;
    SchedStats sched;
    std::vector<uint32_t> sched_dev;
    unsigned tsan_reports = 0;
  };

  // scenario <-> JSON (doubles are stored as hex-float strings so that a
  // replay file reproduces every bit)
  std::string scenario_to_json(const Scenario &s, bool pretty);
  bool scenario_from_json(const std::string &json, Scenario &s, std::string &error);
  std::string result_to_json(const RunResult &r, bool with_responses);

  // executing
  RunResult execute(const Scenario &s);

  // generators
  bool generate(const std::string &property, uint64_t seed, uint64_t run, const std::string &tier, Scenario &out);

  // oracles that need tool knowledge
  void check_dat(const Scenario &s, const Op &op, const Resp &r, RunResult &res, int op_index);
  void check_grid(const Scenario &s, const Op &op, const Resp &r, RunResult &res, int op_index);

  // tools run in-process (sim/tool_*.cc)
  int run_gwb_grid(const std::vector<std::string> &argv);
  int run_gwb_dat(const std::vector<std::string> &argv);
  unsigned grid_threads_created();
  unsigned grid_would_terminate();
  unsigned grid_worker_exceptions();
  void grid_reset_counters();

  // allocation faults (sim/simalloc.cc)
  void alloc_arm(long nth);
  void alloc_disarm();
  unsigned long alloc_count();
  bool alloc_fired();
  void alloc_recycle(int mode);      // 1: freed blocks are reused by the next request of their size (plain flavour)
  unsigned long alloc_recycled();

  // misc helpers
  std::string hexd(double v);
  double unhexd(const std::string &s);
  uint64_t fnv(const void *data, size_t n, uint64_t h = 1469598103934665603ULL);
  inline uint64_t fnv_s(const std::string &s, uint64_t h = 1469598103934665603ULL)
  {
    return fnv(s.data(), s.size(), h);
  }
  unsigned tsan_report_count();
  void tsan_report_reset();
  std::string repo_dir();
  std::string verif_dir();
}
#endif
