// gwbsim: command line of the simulator.
//   gwbsim gen  <property> <seed> <run> <tier>          print the scenario of one run
//   gwbsim exec <scenario.json> [-v]                     execute one scenario, print the result
//   gwbsim run  <property> <seed> <from> <to> <tier> <outdir> [redo_every]
//                                                        execute runs from..to-1, one BEGIN/END pair per run
//   gwbsim corpus-check                                  list corpus worlds the library builds
#include "sim.h"
#include "worlds.h"

#include "world_builder/world.h"
#include "rapidjson/document.h"
#include "rapidjson/stringbuffer.h"
#include "rapidjson/writer.h"

#include <chrono>
#include <cstdio>
#include <cstdlib>
#include <cstring>
#include <exception>
#include <fstream>
#include <iostream>
#include <locale>
#include <sstream>
#include <stdexcept>
#include <unistd.h>

// ---------------------------------------------------------------- sanitizer plumbing
extern "C" __attribute__((used)) const char *__asan_default_options()
{
  return "exitcode=77:detect_leaks=0:abort_on_error=0:allocator_may_return_null=1:detect_stack_use_after_return=0:handle_abort=1";
}
extern "C" __attribute__((used)) const char *__ubsan_default_options()
{
  return "print_stacktrace=1:halt_on_error=1:exitcode=77";
}
extern "C" __attribute__((used)) const char *__tsan_default_options()
{
  return "halt_on_error=0:suppress_equal_stacks=0:suppress_equal_addresses=0:exitcode=0:report_signal_unsafe=0:history_size=7";
}

namespace
{
  unsigned tsan_reports = 0;
}
// called by the TSan runtime for every report (weak hook in the runtime)
extern "C" void __tsan_on_report(void *)
{
  // a run that floods (hundreds of reports, each symbolised) says nothing more than its first reports did:
  // the process ends with its own exit code, which the driver reads as "ThreadSanitizer reports in this run"
  if (__atomic_fetch_add(&tsan_reports, 1u, __ATOMIC_RELAXED) + 1 >= 40)
    {
      static const char msg[] = "gwbsim: 40 ThreadSanitizer reports in one process, stopping\n";
      if (write(2, msg, sizeof(msg) - 1) < 0)
        {}
      _exit(81);
    }
}

namespace sim
{
  unsigned tsan_report_count()
  {
    return __atomic_load_n(&tsan_reports, __ATOMIC_RELAXED);
  }
  void tsan_report_reset()
  {
  }
  std::string repo_dir()
  {
    return GWB_REPO_DIR;
  }
  std::string verif_dir()
  {
    const char *e = std::getenv("GWB_VERIF_DIR");
    if (e && *e)
      return e;
    // the binary lives in <verif>/build/<key>/<flavour>/gwbsim
    char buf[4096];
    const ssize_t n = readlink("/proc/self/exe", buf, sizeof(buf) - 1);
    if (n > 0)
      {
        buf[n] = 0;
        std::string p(buf);
        for (int i = 0; i < 4; ++i)
          {
            const size_t k = p.find_last_of('/');
            if (k == std::string::npos)
              break;
            p = p.substr(0, k);
          }
        return p;
      }
    return "/verif";
  }
}

using namespace sim;

namespace
{
  void on_terminate()
  {
    std::fprintf(stdout, "\nTERMINATE std::terminate called\n");
    std::fflush(stdout);
    _exit(78);
  }

  std::string one_line(std::string s)
  {
    for (auto &c : s)
      if (c == '\n' || c == '\r')
        c = ' ';
    return s;
  }

  // The C++ runtime sets a few things up on first use (the locale machinery behind every stream, the number
  // formatting caches). Whichever thread gets there first synchronises with all later users, and in a process
  // that starts cold that thread would be one of the simulated clients: ThreadSanitizer would then see an ordering
  // between client threads that has nothing to do with the library. The main thread does it here, once.
  void warm_runtime()
  {
    std::locale loc;
    std::ostringstream o;
    o << 1.5 << ' ' << 42 << ' ' << 7ul << ' ' << true << ' ' << std::string("x") << std::endl;
    std::istringstream i("2.5 17 abc");
    double d = 0;
    long l = 0;
    std::string w;
    i >> d >> l >> w;
    std::stringstream both;
    both << d << l;
    std::ifstream in;
    std::ofstream out;
    std::string n = std::to_string(l) + std::to_string(d);
    volatile double parsed = std::strtod(n.c_str(), nullptr);
    (void) parsed;
    try
      {
        throw std::runtime_error("warm");
      }
    catch (std::exception &)
      {}
  }

  // A replay file may hold a history of scenarios, {"sequence":[...]}: they are executed one after the other in this
  // process, and the result reported is that of the last one (what earlier worlds of a process leave behind is part
  // of "every history").
  int cmd_exec_sequence(const rapidjson::Document &d, bool verbose)
  {
    const auto &seq = d["sequence"];
    std::printf("BEGIN 0\n");
    std::fflush(stdout);
    RunResult last;
    for (rapidjson::SizeType i = 0; i < seq.Size(); ++i)
      {
        rapidjson::StringBuffer sb;
        rapidjson::Writer<rapidjson::StringBuffer, rapidjson::UTF8<>, rapidjson::UTF8<>, rapidjson::CrtAllocator, rapidjson::kWriteNanAndInfFlag> w(sb);
        seq[i].Accept(w);
        Scenario s;
        std::string err;
        if (!scenario_from_json(sb.GetString(), s, err))
          {
            std::fprintf(stderr, "gwbsim: sequence element %u: %s\n", static_cast<unsigned>(i), err.c_str());
            return 3;
          }
        last = execute(s);
      }
    if (d.HasMember("alone_hash") && d["alone_hash"].IsString())
      {
        // what the last scenario answers when it is all a process ever does is known: after a history it has to
        // answer the same
        char hb[32];
        std::snprintf(hb, sizeof(hb), "%016llx", static_cast<unsigned long long>(last.hash));
        if (std::string(hb) != d["alone_hash"].GetString())
          {
            Violation v;
            v.cls = (d.HasMember("property") && d["property"].IsString() ? std::string(d["property"].GetString()) : std::string("?")) + "/process-history";
            v.site = "responses";
            v.detail = "after " + std::to_string(seq.Size() - 1) + " earlier scenario(s) in the same process the last scenario's responses hash to "
                       + hb + ", alone in a fresh process to " + d["alone_hash"].GetString();
            last.violations.push_back(v);
          }
      }
    std::printf("END 0 %s\n", one_line(result_to_json(last, verbose)).c_str());
    std::printf("REDO same\n");
    std::fflush(stdout);
    return 0;
  }

  int cmd_exec(const std::string &path, bool verbose)
  {
    warm_runtime();
    const std::string json = read_file(path);
    {
      rapidjson::Document d;
      d.Parse<rapidjson::kParseNanAndInfFlag>(json.c_str(), json.size());
      if (!d.HasParseError() && d.IsObject() && d.HasMember("sequence") && d["sequence"].IsArray() && d["sequence"].Size() > 0)
        return cmd_exec_sequence(d, verbose);
    }
    Scenario s;
    std::string err;
    if (!scenario_from_json(json, s, err))
      {
        std::fprintf(stderr, "gwbsim: %s\n", err.c_str());
        return 3;
      }
    std::printf("BEGIN 0\n");
    std::fflush(stdout);
    RunResult r = execute(s);
    // same scenario again in the same process: the event log must be identical (a cold-start scenario is about
    // what a process does first, so it has no second execution)
    RunResult r2 = s.cold ? r : execute(s);
    std::printf("END 0 %s\n", one_line(result_to_json(r, verbose)).c_str());
    std::printf("REDO %s\n", r.hash == r2.hash && r.violations.size() == r2.violations.size() ? "same" : "DIFFERENT");
    std::fflush(stdout);
    return 0;
  }

  int cmd_run(const std::string &prop, uint64_t seed, uint64_t from, uint64_t to, const std::string &tier, const std::string &outdir, uint64_t redo_every)
  {
    for (uint64_t r = from; r < to; ++r)
      {
        Scenario g;
        if (!generate(prop, seed, r, tier, g))
          {
            std::fprintf(stderr, "gwbsim: no generator for %s\n", prop.c_str());
            return 3;
          }
        // always go through the serialised form, so that a replay file means exactly what ran here
        const std::string json = scenario_to_json(g, false);
        Scenario s;
        std::string err;
        scenario_from_json(json, s, err);
        std::printf("BEGIN %llu\n", static_cast<unsigned long long>(r));
        std::fflush(stdout);
        const auto t0 = std::chrono::steady_clock::now();
        RunResult res = execute(s);
        const double dt = std::chrono::duration<double>(std::chrono::steady_clock::now() - t0).count();
        bool redo_same = true;
        bool redone = false;
        if (!res.violations.empty() || (redo_every && r % redo_every == 0))
          {
            RunResult res2 = execute(s);
            redone = true;
            redo_same = (res2.hash == res.hash && res2.violations.size() == res.violations.size());
          }
        if (!res.violations.empty())
          {
            const std::string p = outdir + "/" + prop + "-" + std::to_string(seed) + "-" + std::to_string(r) + ".json";
            write_file(p, scenario_to_json(s, true));
          }
        std::printf("END %llu %s\n", static_cast<unsigned long long>(r), one_line(result_to_json(res, false)).c_str());
        std::printf("INFO %llu {\"wall\":%.4f,\"redone\":%s,\"redo_same\":%s,\"nops\":%zu,\"nthreads\":%zu,\"gen\":\"%s\"}\n",
                    static_cast<unsigned long long>(r), dt, redone ? "true" : "false", redo_same ? "true" : "false",
                    s.ops.size(), s.threads.size(), s.generator.c_str());
        std::fflush(stdout);
      }
    std::printf("DONE\n");
    std::fflush(stdout);
    return 0;
  }
}

int main(int argc, char **argv)
{
  std::set_terminate(on_terminate);
  setvbuf(stdout, nullptr, _IOLBF, 0);
  if (argc < 2)
    {
      std::fprintf(stderr, "usage: gwbsim gen|exec|run|corpus-check ...\n");
      return 3;
    }
  const std::string cmd = argv[1];
  if (cmd == "gen" && argc >= 6)
    {
      // gen <property> <seed> <run> <tier> [<count>]: with a count, one scenario per line for runs run..run+count-1
      const uint64_t first = std::strtoull(argv[4], nullptr, 10);
      const uint64_t count = argc >= 7 ? std::strtoull(argv[6], nullptr, 10) : 1;
      for (uint64_t r = first; r < first + count; ++r)
        {
          Scenario s;
          if (!generate(argv[2], std::strtoull(argv[3], nullptr, 10), r, argv[5], s))
            return 3;
          std::printf("%s\n", argc >= 7 ? one_line(scenario_to_json(s, false)).c_str() : scenario_to_json(s, true).c_str());
        }
      return 0;
    }
  if (cmd == "exec" && argc >= 3)
    return cmd_exec(argv[2], argc >= 4 && std::string(argv[3]) == "-v");
  if (cmd == "run" && argc >= 8)
    return cmd_run(argv[2], std::strtoull(argv[3], nullptr, 10), std::strtoull(argv[4], nullptr, 10), std::strtoull(argv[5], nullptr, 10),
                   argv[6], argv[7], argc >= 9 ? std::strtoull(argv[8], nullptr, 10) : 50);
  if (cmd == "dump" && argc >= 4)
    {
      // debugging aid: execute a scenario and write what the tools wrote (and printed) to a real directory
      Scenario s;
      std::string err;
      if (!scenario_from_json(read_file(argv[2]), s, err))
        return 3;
      RunResult r = execute(s);
      int k = 0;
      for (const auto &x : r.resp)
        {
          for (const auto &f : x.written)
            {
              std::string name = f.first;
              for (auto &c : name)
                if (c == '/')
                  c = '_';
              write_file(std::string(argv[3]) + "/op" + std::to_string(k) + "_" + name, f.second);
            }
          if (!x.out.empty())
            write_file(std::string(argv[3]) + "/op" + std::to_string(k) + "_stdout.txt", x.out);
          ++k;
        }
      std::printf("%s\n", result_to_json(r, false).c_str());
      return 0;
    }
  if (cmd == "corpus-check")
    {
      for (const auto &w : corpus())
        {
          if (!w.parse_ok)
            continue;
          simfs::reset();
          simfs::put("/simfs/probe.wb", w.content);
          try
            {
              WorldBuilder::World world("/simfs/probe.wb");
              std::printf("%s\n", w.name.c_str());
            }
          catch (std::exception &)
            {
            }
        }
      return 0;
    }
  std::fprintf(stderr, "gwbsim: bad arguments\n");
  return 3;
}
